"""C04 — representations agree and conversions are homomorphisms (float monitor)."""
import math
import numpy as np
from .common import Laws, run_subprocess, main_entry
from .. import inputs
from . import geom

SPEC = dict(
    technique='Lean 4 proof (q2r homomorphism, double cover, r2q∘q2r = ±id on all 40 branches, embeddings, class delegation; regenerated model) + float monitor of the converse maps',
    lean_modules=['SmVerif.Props.C04', 'SmVerif.Props.Delegation', 'SmVerif.Props.UQOps', 'SmVerif.Props.Multi'],
    groups=['Quaternions', 'Quats', 'Poses', 'Multi'],
    expected_untranslatable=('UQ_interp', 'UQ_interp_shortest'),
    partial=['r2q is proved to invert q2r up to the overall sign for exact unit quaternions (every branch); r2q on rounded matrices, twist and dual-quaternion routes are explored'],
    assumptions=['agreement is compared at 1e-6 on generated inputs only'],
)

def monitor(tier, seed, search=False):
    return run_subprocess('smv.props.c04', tier, seed, search)

def replay(rp):
    r = run_subprocess('smv.props.c04', 'quick', 0, True)
    hit = [v for v in r['violations'] if v['signature'] == rp.get('signature')]
    return dict(violates=bool(hit), detail=hit[:1])

def rot_near(g):
    """rotation incl. angles within 1e-9 of 0 and pi"""
    ax = inputs.unit_axis(g); r = g.random()
    if r < 0.25: th = 10.0 ** g.uniform(-12, -6)
    elif r < 0.5: th = math.pi - 10.0 ** g.uniform(-12, -6)
    elif r < 0.55: th = math.pi
    elif r < 0.6: th = 0.0
    else: th = float(g.uniform(0, math.pi))
    return inputs.rodrigues(ax, th), ax, th

def _impl(tier, seed, search):
    import spatialmath.base as b
    from spatialmath import SO2, SE2, SO3, SE3, UnitQuaternion, Twist2, Twist3
    from spatialmath.DualQuaternion import UnitDualQuaternion
    g = inputs.rng(seed)
    n = 120 if tier == 'quick' else 2500
    if search: n *= 3
    TOL = 1e-6
    L = Laws('C04', rule='rotations incl. angles within 1e-9 of 0 and pi, translations to 1e6 (1e3 through twists), all shared constructors '
                         'with their options, random expression trees evaluated in each representation; a case = one comparison')
    ORD = ['zyx', 'xyz', 'yxz']
    for i in range(n):
        R, ax, th = rot_near(g); R2, _, _ = rot_near(g)
        t = inputs.translation(g); t2 = inputs.translation(g)
        inp = dict(R=R, axis=ax, theta=th)
        # matrix <-> quaternion
        ok, q = L.noraise('r2q', lambda: b.r2q(R), inp, 'r2q(R)')
        if ok:
            L.close('q2r(r2q(R))', b.q2r(q), R, TOL, 1.0, inp)
            L.close('r2q:unit', float(np.linalg.norm(q)), 1.0, TOL, 1.0, inp)
        uq = inputs.unitq(g)
        ok, q2 = L.noraise('r2q(q2r(q))', lambda: b.r2q(b.q2r(uq)), dict(q=uq), 'r2q(q2r(q))')
        if ok:
            q2 = q2 if np.dot(q2, uq) >= 0 else -q2
            L.close('r2q(q2r(q))', q2, uq, TOL, 1.0, dict(q=uq))
        L.close('q2r(-q)', b.q2r(-uq), b.q2r(uq), 1e-12, 1.0, dict(q=uq))
        ok, r = L.noraise('UQ==-UQ', lambda: UnitQuaternion(uq) == UnitQuaternion(-uq), dict(q=uq), 'q == -q')
        if ok: L.check('UQ==-UQ', r is True or r == True, dict(q=uq), 'q and -q (the same rotation) do not compare equal', observed=r)
        # the angle/axis read from a unit quaternion of either sign builds the same rotation again, in every class
        for sq in (uq, -uq):
            ok, r = L.noraise('UQ.angvec', lambda: UnitQuaternion(sq, norm=False, check=False).angvec(), dict(q=sq), 'UnitQuaternion.angvec()')
            if ok and r[1] is not None and np.all(np.isfinite(np.r_[r[0], np.asarray(r[1], float)])) and float(np.linalg.norm(r[1])) > 0:
                ok2, r2 = L.noraise('AngVec(UQ.angvec)', lambda: (SO3.AngVec(r[0], r[1]).A, UnitQuaternion.AngVec(r[0], r[1]).R), dict(q=sq), 'AngVec(*q.angvec())')
                if ok2:
                    L.close('SO3.AngVec(*q.angvec())', r2[0], b.q2r(sq), TOL, 1.0, dict(q=sq), what='the angle and axis reported by UnitQuaternion.angvec() do not describe the rotation of q', sig='UQ.angvec')
                    L.close('UQ.AngVec(*q.angvec())', r2[1], b.q2r(sq), TOL, 1.0, dict(q=sq), sig='UQ.angvec')
        # conversions are homomorphisms: SO3 <-> UQ
        A, B = SO3(R, check=False), SO3(R2, check=False)
        ok, r = L.noraise('UQ(X*Y)', lambda: (UnitQuaternion(A * B).R, (UnitQuaternion(A) * UnitQuaternion(B)).R), dict(X=R, Y=R2), 'UnitQuaternion(X*Y)')
        if ok: L.close('UQ(X*Y)=UQ(X)*UQ(Y)', r[0], r[1], TOL, 1.0, dict(X=R, Y=R2))
        ok, r = L.noraise('UQ(X.inv)', lambda: (UnitQuaternion(A.inv()).R, UnitQuaternion(A).inv().R), inp, 'UnitQuaternion(X.inv())')
        if ok: L.close('UQ(X.inv)=UQ(X).inv', r[0], r[1], TOL, 1.0, inp)
        ok, r = L.noraise('UQ.SO3', lambda: UnitQuaternion(A).SO3().A, inp, 'SO3 -> UQ -> SO3')
        if ok: L.close('SO3->UQ->SO3', r, R, TOL, 1.0, inp)
        ok, r = L.noraise('UQ.SE3', lambda: UnitQuaternion(A).SE3().A[:3, :3], inp, 'UQ.SE3()')
        if ok: L.close('UQ.SE3', r, R, TOL, 1.0, inp)
        # SE3 <-> twist (translations to 1e3 through exp/log)
        ts = t if np.linalg.norm(t) <= 1e3 else t / np.linalg.norm(t) * 1e3
        T = np.eye(4); T[:3, :3] = R; T[:3, 3] = ts
        Tb = np.eye(4); Tb[:3, :3] = R2; Tb[:3, 3] = t2 / max(1.0, np.linalg.norm(t2) / 1e3)
        X, Y = SE3(T, check=False), SE3(Tb, check=False)
        sc = max(1.0, geom.tmag(T), geom.tmag(Tb), geom.tmag(T @ Tb))
        ok, r = L.noraise('SE3->Twist3->SE3', lambda: X.Twist3().SE3().A, dict(T=T, theta=th), 'SE3 -> Twist3 -> SE3')
        if ok: L.close('SE3->Twist3->SE3', r, T, TOL, sc, dict(T=T, theta=th))
        ok, r = L.noraise('Twist3 hom', lambda: ((X.Twist3() * Y.Twist3()).SE3().A, (X * Y).A), dict(X=T, Y=Tb), 'Twist3(X)*Twist3(Y)')
        if ok: L.close('Twist3(X)*Twist3(Y)', r[0], r[1], TOL, sc, dict(X=T, Y=Tb))
        ok, r = L.noraise('Twist3 inv', lambda: (X.Twist3().inv().SE3().A, X.inv().A), dict(T=T), 'Twist3(X).inv()')
        if ok: L.close('Twist3(X).inv', r[0], r[1], TOL, sc, dict(T=T))
        # SE3 <-> unit dual quaternion (translations to 1e6)
        T6 = np.eye(4); T6[:3, :3] = R; T6[:3, 3] = t
        ok, r = L.noraise('UDQ', lambda: UnitDualQuaternion(SE3(T6, check=False)).SE3().A, dict(T=T6), 'SE3 -> UnitDualQuaternion -> SE3')
        if ok: L.close('SE3->UDQ->SE3', r, T6, TOL, max(1.0, geom.tmag(T6)), dict(T=T6))
        # … and acts on points as the rigid motion does (the product of two of them too)
        pq_ = g.normal(size=3) * 10.0 ** g.uniform(-1, 1)
        ok, r = L.noraise('UDQ*point', lambda: (np.asarray(UnitDualQuaternion(X) * pq_, float).flatten(), np.asarray((UnitDualQuaternion(X) * UnitDualQuaternion(Y)) * pq_, float).flatten()), dict(X=T, p=pq_), 'UnitDualQuaternion * point')
        if ok:
            L.close('UDQ(X)*p = X*p', r[0], T[:3, :3] @ pq_ + T[:3, 3], TOL, max(sc, float(np.max(np.abs(pq_)))), dict(X=T, p=pq_), what='a unit dual quaternion built from an SE3 moves a point differently from the SE3', sig='UDQ*point')
            L.close('(UDQ(X)UDQ(Y))*p = X*Y*p', r[1], (T @ Tb)[:3, :3] @ pq_ + (T @ Tb)[:3, 3], TOL, max(sc, float(np.max(np.abs(pq_)))) * max(1.0, geom.tmag(T)), dict(X=T, Y=Tb, p=pq_), sig='UDQ*point')
        ok, r = L.noraise('UDQ hom', lambda: ((UnitDualQuaternion(X) * UnitDualQuaternion(Y)).SE3().A, (X * Y).A), dict(X=T, Y=Tb), 'UDQ(X)*UDQ(Y)')
        if ok: L.close('UDQ(X)*UDQ(Y)', r[0], r[1], TOL, sc, dict(X=T, Y=Tb))
        # named constructors agree across classes
        ang = np.array([inputs.angle(g) for _ in range(3)]); unit = 'rad' if i % 2 == 0 else 'deg'
        angu = ang if unit == 'rad' else np.degrees(ang); a1 = float(angu[0])
        for axn in 'xyz':
            ok, r = L.noraise(f'R{axn}', lambda: (getattr(SO3, 'R' + axn)(a1, unit).A, getattr(SE3, 'R' + axn)(a1, unit).A[:3, :3],
                                                 getattr(UnitQuaternion, 'R' + axn)(a1, unit).R), dict(angle=a1, unit=unit), f'R{axn} constructors')
            if ok:
                L.close(f'R{axn}:SE3', r[1], r[0], TOL, 1.0, dict(angle=a1, unit=unit)); L.close(f'R{axn}:UQ', r[2], r[0], TOL, 1.0, dict(angle=a1, unit=unit))
        o = ORD[i % 3]
        ok, r = L.noraise('RPY', lambda: (SO3.RPY(angu, order=o, unit=unit).A, SE3.RPY(angu, order=o, unit=unit).A[:3, :3],
                                          UnitQuaternion.RPY(angu, order=o, unit=unit).R), dict(angles=angu, order=o, unit=unit), 'RPY constructors')
        if ok:
            L.close('RPY:SE3', r[1], r[0], TOL, 1.0, dict(angles=angu, order=o, unit=unit)); L.close('RPY:UQ', r[2], r[0], TOL, 1.0, dict(angles=angu, order=o, unit=unit))
        # the N x 3 (sequence) forms of the shared constructors: every row as the single call, in every class, every order
        A3 = np.stack([angu, angu[::-1] * 0.5])
        def seq_forms():
            out_ = {}
            for nm_, cls_ in (('SO3', SO3), ('SE3', SE3)):          # UnitQuaternion.RPY / Eul are documented for one angle triple only
                Xs = cls_.RPY(A3, order=o, unit=unit)
                out_[nm_ + '.RPY'] = [np.asarray(x_.R if nm_ == 'UQ' else x_.A[:3, :3], float) for x_ in Xs]
                Es = cls_.Eul(A3, unit=unit)
                out_[nm_ + '.Eul'] = [np.asarray(x_.R if nm_ == 'UQ' else x_.A[:3, :3], float) for x_ in Es]
            return out_
        ok, r = L.noraise('RPY/Eul(Nx3)', seq_forms, dict(angles=A3, order=o, unit=unit), 'sequence forms of RPY / Eul')
        if ok:
            want_rpy = [SO3.RPY(A3[k_], order=o, unit=unit).A for k_ in range(2)]; want_eul = [SO3.Eul(A3[k_], unit=unit).A for k_ in range(2)]
            for nm_, got_ in r.items():
                want_ = want_rpy if nm_.endswith('RPY') else want_eul
                L.check(f'{nm_}(Nx3):len', len(got_) == 2, dict(order=o, unit=unit), f'{nm_}(N x 3) does not give N values', sig='ctor(Nx3)')
                if len(got_) == 2:
                    for g_, w_ in zip(got_, want_): L.close(f'{nm_}(Nx3)', g_, w_, TOL, 1.0, dict(angles=A3, order=o, unit=unit), what=f'{nm_}(N x 3 array) differs from the single-row call', sig='ctor(Nx3)')
        ok, r = L.noraise('Eul', lambda: (SO3.Eul(angu, unit=unit).A, SE3.Eul(angu, unit=unit).A[:3, :3], UnitQuaternion.Eul(angu, unit=unit).R), dict(angles=angu, unit=unit), 'Eul constructors')
        if ok:
            L.close('Eul:SE3', r[1], r[0], TOL, 1.0, dict(angles=angu)); L.close('Eul:UQ', r[2], r[0], TOL, 1.0, dict(angles=angu))
        v = geom.axis_scaled(g)
        ok, r = L.noraise('AngVec', lambda: (SO3.AngVec(a1, v, unit=unit).A, SE3.AngVec(a1, v, unit=unit).A[:3, :3], UnitQuaternion.AngVec(a1, v, unit=unit).R),
                          dict(theta=a1, v=v, unit=unit), 'AngVec constructors')
        if ok:
            L.close('AngVec:SE3', r[1], r[0], TOL, 1.0, dict(theta=a1, v=v, unit=unit))
            L.close('AngVec:UQ', r[2], r[0], TOL, 1.0, dict(theta=a1, v=v, unit=unit), what='UnitQuaternion.AngVec and SO3.AngVec give different rotations', sig='AngVec:UQ')
        w = ax * (th if th > 0 else 0.3)
        ok, r = L.noraise('EulerVec', lambda: (SO3.EulerVec(w).A, SE3.EulerVec(w).A[:3, :3], UnitQuaternion.EulerVec(w).R, SO3.Exp(w).A), dict(w=w), 'EulerVec / Exp constructors')
        if ok:
            L.close('EulerVec:SE3', r[1], r[0], TOL, 1.0, dict(w=w)); L.close('EulerVec:UQ', r[2], r[0], TOL, 1.0, dict(w=w)); L.close('EulerVec:Exp', r[3], r[0], TOL, 1.0, dict(w=w))
        # rotation vectors longer than pi (up to 3 pi): every class still builds the same rotation, and halving composes
        wl = ax * float(g.uniform(math.pi, 3 * math.pi))
        ok, r = L.noraise('EulerVec(long)', lambda: (SO3.EulerVec(wl).A, SE3.EulerVec(wl).A[:3, :3], UnitQuaternion.EulerVec(wl).R, SO3.Exp(wl).A, (UnitQuaternion.EulerVec(wl / 2) * UnitQuaternion.EulerVec(wl / 2)).R),
                          dict(w=wl), 'EulerVec / Exp constructors on a rotation vector longer than pi')
        if ok:
            for nm_, k_ in (('SE3', 1), ('UQ', 2), ('Exp', 3), ('UQ(w/2)^2', 4)):
                L.close(f'EulerVec(long):{nm_}', r[k_], r[0], TOL, 1.0, dict(w=wl), what=f'{nm_} and SO3.EulerVec give different rotations for a rotation vector longer than pi', sig='EulerVec:long')
        # a twist times a pose is the pose product (2-D and 3-D), and it is a pose
        if i % 3 == 0:
            from spatialmath import Twist3 as Tw3c_, Twist2 as Tw2c_, SE2 as SE2c_
            A3_, B3_ = SE3(inputs.se3(g, 1), check=False), SE3(inputs.se3(g, 1), check=False)
            A2_, B2_ = SE2c_(inputs.se2(g, 1), check=False), SE2c_(inputs.se2(g, 1), check=False)
            for nm_, f_, want_ in (('Twist3*SE3', lambda: Tw3c_(A3_) * B3_, (A3_ * B3_).A), ('Twist2*SE2', lambda: Tw2c_(A2_) * B2_, (A2_ * B2_).A)):
                ok, r = L.noraise(nm_, f_, dict(A=A3_.A if '3' in nm_ else A2_.A, B=B3_.A if '3' in nm_ else B2_.A), nm_)
                if ok:
                    L.check(f'{nm_}:class', type(r).__name__ == nm_.split('*')[1], dict(op=nm_), f'{nm_} is not a {nm_.split("*")[1]}', sig='Twist*pose')
                    L.close(nm_, np.asarray(r.A, float), np.asarray(want_, float), TOL, max(1.0, geom.tmag(np.asarray(want_, float))), dict(op=nm_), what=f'{nm_} differs from the product of the poses', sig='Twist*pose')
        # the quaternion exponential of half the rotation vector is the same rotation
        from spatialmath import Quaternion as Q_
        ok, r = L.noraise('Quaternion.exp', lambda: (np.asarray(Q_.Pure(w / 2).exp().vec, float), np.asarray(UnitQuaternion.EulerVec(w).vec, float)), dict(w=w), 'Quaternion.Pure(w/2).exp()')
        if ok:
            L.close('exp(pure w/2)=EulerVec(w)', b.q2r(r[0] / np.linalg.norm(r[0])), b.q2r(r[1]), TOL, 1.0, dict(w=w), what='the quaternion exponential of w/2 and UnitQuaternion.EulerVec(w) are different rotations', sig='Quaternion.exp')
            L.close('exp(pure):unit', float(np.linalg.norm(r[0])), 1.0, TOL, 1.0, dict(w=w), sig='Quaternion.exp')
        # the quaternion logarithm is the inverse of that exponential on either hemisphere (scalar part of either sign), and twice its
        # vector part is a rotation vector of the same rotation
        for sg_ in (1.0, -1.0):
            qh_ = np.asarray(UnitQuaternion.EulerVec(w).vec, float) * sg_
            if np.linalg.norm(qh_[1:]) < 1e-6: continue
            ok, r = L.noraise('Quaternion.log', lambda: (np.asarray(UnitQuaternion(qh_, norm=False).log().exp().vec, float), np.asarray(UnitQuaternion(qh_, norm=False).log().vec, float)), dict(q=qh_), 'UnitQuaternion.log()')
            if ok:
                L.close('exp(log q)=q', r[0], qh_, TOL, 1.0, dict(q=qh_), what='exp(log(q)) is not q for a unit quaternion' + (' with negative scalar part' if qh_[0] < 0 else ''), sig='Quaternion.log')
                L.close('2 log(q).v is a rotation vector of q', inputs.rodrigues(r[1][1:] / max(1e-300, np.linalg.norm(r[1][1:])), 2 * float(np.linalg.norm(r[1][1:]))), b.q2r(qh_), TOL, 1.0, dict(q=qh_), sig='Quaternion.log')
                L.close('log(q).s = 0', float(r[1][0]), 0.0, TOL, 1.0, dict(q=qh_), sig='Quaternion.log')
        # conversion commutes with inversion on sequences too: (A.inv())[i] = A[i].inv() in every representation
        if i % 4 == 2:
            Ts_ = [np.block([[rot_near(g)[0], inputs.translation(g).reshape(3, 1)], [np.zeros((1, 3)), np.ones((1, 1))]]) for _ in range(3)]
            def multi_inv():
                A_ = SE3(Ts_, check=False); Ai = A_.inv()
                Aq = UnitQuaternion([b.r2q(T_[:3, :3]) for T_ in Ts_]); Aqi = Aq.inv()
                return [np.asarray(x_, float) for x_ in Ai.data], [np.linalg.inv(T_) for T_ in Ts_], [np.asarray(x_, float) for x_ in (Ai * A_).data], [b.q2r(np.asarray(x_, float)) for x_ in Aqi.data]
            ok, r = L.noraise('inv(multi)', multi_inv, dict(Ts=Ts_), 'inverse of multi-valued SE3 / UnitQuaternion')
            if ok and len(r[0]) == 3:
                for k_ in range(3):
                    sc_ = max(1.0, geom.tmag(r[1][k_]))
                    L.close('SE3[M].inv', r[0][k_], r[1][k_], TOL, sc_, dict(k=k_, T=Ts_[k_]), what='element of the inverse of a multi-valued SE3 is not the inverse of the element', sig='inv(multi)')
                    L.close('SE3[M].inv*A', r[2][k_], np.eye(4), TOL, sc_ ** 2, dict(k=k_, T=Ts_[k_]), sig='inv(multi)')
                    L.close('UQ[M].inv', r[3][k_], Ts_[k_][:3, :3].T, TOL, 1.0, dict(k=k_), sig='inv(multi)')
            elif ok: L.check('inv(multi):len', False, dict(Ts=Ts_), 'inverse of a 3-valued SE3 does not hold 3 values', sig='inv(multi)')
        # the same constructors on the zero rotation vector and on magnitudes around the library's zero thresholds (10 and 100 eps)
        wz = ax * (0.0, 1e-17, 1e-15, 3e-15, 1e-14, 5e-14, 1e-12)[i % 7]
        for nm_, f_ in (('SO3.EulerVec', lambda: SO3.EulerVec(wz).A), ('SE3.EulerVec', lambda: SE3.EulerVec(wz).A[:3, :3]), ('UQ.EulerVec', lambda: UnitQuaternion.EulerVec(wz).R),
                        ('SO3.Exp', lambda: SO3.Exp(wz).A)):
            ok, r = L.noraise(f'{nm_}(tiny)', f_, dict(w=wz), f'{nm_} on a rotation vector of magnitude {float(np.linalg.norm(wz)):.1g}', sig=f'EulerVec:tiny:{nm_}:raises')
            if ok: L.close(f'{nm_}(tiny)', r, np.eye(3), TOL, 1.0, dict(w=wz), sig=f'EulerVec:tiny:{nm_}')
        oa = geom.axis_scaled(g); aa = np.cross(oa, inputs.unit_axis(g))
        if np.linalg.norm(aa) > 1e-3 * np.linalg.norm(oa):
            ok, r = L.noraise('OA', lambda: (SO3.OA(oa, aa).A, SE3.OA(oa, aa).A[:3, :3], UnitQuaternion.OA(oa, aa).R), dict(o=oa, a=aa), 'OA constructors')
            if ok:
                L.close('OA:SE3', r[1], r[0], TOL, 1.0, dict(o=oa, a=aa)); L.close('OA:UQ', r[2], r[0], TOL, 1.0, dict(o=oa, a=aa))
        # embeddings preserve composition and the action on points
        p3 = g.normal(size=3) * 10.0 ** g.uniform(-3, 3)
        ok, r = L.noraise('SO3->SE3', lambda: ((SE3.SO3(A) * SE3.SO3(B)).A, SE3.SO3(A * B).A, (SE3.SO3(A) * p3).flatten(), (A * p3).flatten()), dict(X=R, Y=R2, p=p3), 'SE3.SO3 embedding')
        if ok:
            L.close('emb SO3->SE3:hom', r[0], r[1], TOL, 1.0, dict(X=R, Y=R2)); L.close('emb SO3->SE3:points', r[2], r[3], TOL, max(1.0, float(np.max(np.abs(p3)))), dict(X=R, p=p3))
        a2, b2 = SO2(inputs.so2(g), check=False), SO2(inputs.so2(g), check=False); p2 = p3[:2]
        ok, r = L.noraise('SO2->SE2', lambda: ((a2.SE2() * b2.SE2()).A, (a2 * b2).SE2().A, (a2.SE2() * p2).flatten(), (a2 * p2).flatten()), dict(X=a2.A, Y=b2.A, p=p2), 'SO2.SE2 embedding')
        if ok:
            L.close('emb SO2->SE2:hom', r[0], r[1], TOL, 1.0, dict(X=a2.A, Y=b2.A)); L.close('emb SO2->SE2:points', r[2], r[3], TOL, max(1.0, float(np.max(np.abs(p2)))), dict(X=a2.A, p=p2))
        e1, e2 = SE2(inputs.se2(g, 3), check=False), SE2(inputs.se2(g, 3), check=False)
        ok, r = L.noraise('SE2->SE3', lambda: ((e1.SE3() * e2.SE3()).A, (e1 * e2).SE3().A, (e1.SE3() * np.r_[p2, 0.0]).flatten()[:2], (e1 * p2).flatten()), dict(X=e1.A, Y=e2.A, p=p2), 'SE2.SE3 embedding')
        if ok:
            s2 = max(1.0, geom.tmag(e1.A), geom.tmag(e2.A), geom.tmag((e1 * e2).A))
            L.close('emb SE2->SE3:hom', r[0], r[1], TOL, s2, dict(X=e1.A, Y=e2.A)); L.close('emb SE2->SE3:points', r[2], r[3], TOL, max(s2, float(np.max(np.abs(p2)))), dict(X=e1.A, p=p2))
        # the embedding of a multi-valued object embeds every value (no sharing between the results)
        if i % 3 == 0:
            ok, r = L.noraise('SE2->SE3(multi)', lambda: ([np.asarray(a_, float) for a_ in SE2([e1.A, e2.A], check=False).SE3().data], [e1.SE3().A, e2.SE3().A]), dict(X=e1.A, Y=e2.A), 'SE3() of a 2-valued SE2')
            if ok:
                L.check('emb SE2->SE3(multi):len', len(r[0]) == 2, dict(X=e1.A, Y=e2.A), 'SE3() of a 2-valued SE2 does not hold 2 values')
                if len(r[0]) == 2:
                    for k_ in range(2): L.close('emb SE2->SE3(multi)', r[0][k_], r[1][k_], TOL, max(1.0, geom.tmag(r[1][k_])), dict(X=e1.A, Y=e2.A, k=k_), sig='emb SE2->SE3(multi)')
        # == and != are complementary and blind to the sign of the quaternion
        qe = UnitQuaternion(A); qm = UnitQuaternion(-qe.vec, norm=False, check=False); qo = qe * UnitQuaternion.Rx(0.7)
        ok, r = L.noraise('UQ eq/ne', lambda: (qe == qm, qe != qm, qe == qo, qe != qo, qe == UnitQuaternion(qe.vec), qe != UnitQuaternion(qe.vec)), dict(q=qe.vec), 'UnitQuaternion == / !=')
        if ok: L.check('UQ eq/ne', [bool(x_) for x_ in r] == [True, False, False, True, True, False], dict(q=qe.vec), '== and != of unit quaternions are not complementary / not blind to the sign', observed=[bool(x_) for x_ in r], sig='UQ:eq-ne')
        # … at (numerical) half turns, where the scalar part is rounding noise of either sign: q and -q still compare equal
        axh = inputs.unit_axis(g) if i % 2 else np.eye(3)[i % 3]; nzs = float(g.choice([1e-17, 6e-17, -6e-17, 0.0, 1e-16]))
        qh1 = np.r_[nzs, axh]; qh2 = np.r_[nzs, -axh]; qh3 = np.r_[-nzs, -axh]
        ok, r = L.noraise('UQ eq (half turn)', lambda: (UnitQuaternion(qh1, norm=False) == UnitQuaternion(qh2, norm=False), UnitQuaternion(qh1, norm=False) == UnitQuaternion(qh3, norm=False),
                                                       UnitQuaternion(qh1, norm=False) != UnitQuaternion(qh2, norm=False), b.isequal(qh1, qh2, unitq=True)), dict(q1=qh1, q2=qh2), 'UnitQuaternion == at a half turn')
        if ok: L.check('UQ eq (half turn)', [bool(x_) for x_ in r] == [True, True, False, True], dict(q1=qh1, q2=qh2), 'two quaternions of the same half turn (opposite vector parts, scalar parts at rounding level) do not compare equal', observed=[bool(x_) for x_ in r], sig='UQ:eq-ne:half-turn')
        if i % 6 == 0:
            for nm_, mkq in (('Rz', UnitQuaternion.Rz), ('Rx', UnitQuaternion.Rx), ('Ry', UnitQuaternion.Ry)):
                ok, r = L.noraise(f'UQ.{nm_}(pi)==UQ.{nm_}(-pi)', lambda: (mkq(math.pi) == mkq(-math.pi), mkq(math.pi / 2) * mkq(math.pi / 2) == mkq(-math.pi / 2) * mkq(-math.pi / 2), UnitQuaternion(mkq(-math.pi).R) == mkq(-math.pi)), dict(ctor=nm_), 'comparison of half turns')
                if ok: L.check(f'UQ.{nm_}(pi)==UQ.{nm_}(-pi)', all(bool(x_) for x_ in r), dict(ctor=nm_), f'UnitQuaternion.{nm_}(pi) and .{nm_}(-pi) (the same rotation) do not compare equal', observed=[bool(x_) for x_ in r], sig='UQ:eq-ne:half-turn')
        # the product of the values of a multi-valued object is the same motion in every class, and computing it leaves the object as it was
        if i % 3 == 1:
            Ps_ = [SE3(inputs.se3(g, 2), check=False) for _ in range(3)]; want_ = np.linalg.multi_dot([x_.A for x_ in Ps_])
            def prods_():
                Xm = SE3([x_.A.copy() for x_ in Ps_], check=False); p1 = Xm.prod().A.copy()
                qs_ = UnitQuaternion(Xm); return p1, (qs_[0] * qs_[1] * qs_[2]).R, Xm.Twist3().prod().SE3().A, SO3([x_.R for x_ in Xm]).prod().A, Xm.prod().A, Xm[0].A
            ok, r = L.noraise('prod(all classes)', prods_, dict(n=3), 'prod() of a 3-valued object in each class')
            if ok:
                L.close('SE3.prod', r[0], want_, TOL, max(1.0, geom.tmag(want_)), dict(n=3), sig='prod:classes'); L.close('UQ(X).prod after X.prod', r[1], want_[:3, :3], TOL, 1.0, dict(n=3), what='the product of the values of UnitQuaternion(X) differs from the product of the rotations once X.prod() has been called', sig='prod:classes')
                L.close('Twist3(X).prod after X.prod', r[2], want_, TOL, max(1.0, geom.tmag(want_)), dict(n=3), sig='prod:classes'); L.close('SO3.prod', r[3], want_[:3, :3], TOL, 1.0, dict(n=3), sig='prod:classes')
                L.close('SE3.prod (again)', r[4], want_, TOL, max(1.0, geom.tmag(want_)), dict(n=3), what='a second X.prod() differs from the first', sig='prod:classes'); L.close('X[0] after prod', r[5], Ps_[0].A, TOL, max(1.0, geom.tmag(Ps_[0].A)), dict(n=3), what='X.prod() changed X[0]', sig='prod:classes')
        # pose -> twist near a half turn, composed with / applied to something far away (lever arm 1e5 .. 1e6): the angle of the logarithm
        # must be good to much better than 1e-8 rad for the composition to agree; compared at 1e-10 of the translation magnitude
        # (looser than the 1e-6 the property states for these magnitudes, far above the 1e-15 the unchanged code achieves)
        if i < 15:
            axn_ = np.array([(1, 2, -1), (0.3, -0.5, 0.8), (0, 0, 1)][i % 3], float); dn_ = (1e-9, 3e-9, 1e-8, 1e-7, 1e-6)[i // 3]
            Xn_ = SE3(1.0, -2.0, 0.5) * SE3.AngVec(math.pi - dn_, axn_); Yn_ = SE3(2.0e5, -7.0e5, 4.0e5) * SE3.RPY([0.4, -0.7, 1.1]); pn_ = np.array([6.0e5, -3.0e5, 8.0e5])
            ok, r = L.noraise('Twist3(X)*Y (near pi, far)', lambda: ((Twist3(Xn_) * Yn_).A, (Twist3(Xn_) * Twist3(Yn_)).SE3().A, np.asarray(Twist3(Xn_).SE3() * pn_, float).flatten(), (Xn_ * Yn_).A, np.asarray(Xn_ * pn_, float).flatten()), dict(axis=axn_, pi_minus=dn_), 'pose -> twist near a half turn, composed with a far pose')
            if ok:
                scn_ = 1e6
                L.close('Twist3(X)*Y = X*Y (near pi, far)', r[0], r[3], 1e-10, scn_, dict(axis=axn_, pi_minus=dn_), what='Twist3(X) * Y differs from X * Y for a rotation next to a half turn composed with a far pose', sig='twist-compose:near-pi')
                L.close('(Twist3(X)*Twist3(Y)).SE3() = X*Y (near pi, far)', r[1], r[3], 1e-10, scn_, dict(axis=axn_, pi_minus=dn_), sig='twist-compose:near-pi'); L.close('Twist3(X).SE3()*p = X*p (near pi, far)', r[2], r[4], 1e-10, scn_, dict(axis=axn_, pi_minus=dn_), sig='twist-compose:near-pi')
        # integer powers -6 .. 6 in every class describe the same rotation; lists of angles with a unit in the planar class
        if i % 5 == 1:
            Am_ = np.asarray(A.A if hasattr(A, 'A') and not isinstance(A, np.ndarray) else A, float); Xp_ = SO3(Am_, check=False); qp_ = UnitQuaternion(Am_)
            for n_ in (-6, -5, -4, -3, 3, 4, 5, 6):
                ok, r = L.noraise(f'UQ**{n_}', lambda: ((qp_ ** n_).R, (Xp_ ** n_).A, np.linalg.matrix_power(Am_ if n_ > 0 else Am_.T, abs(n_))), dict(R=Am_, n=n_), 'UnitQuaternion ** n vs SO3 ** n')
                if ok:
                    L.close(f'UQ**n=SO3**n', r[0], r[2], TOL, 1.0, dict(R=Am_, n=n_), what=f'UnitQuaternion(X) ** {n_} is not the rotation X ** {n_}', sig='pow:classes'); L.close('SO3**n', r[1], r[2], TOL, 1.0, dict(R=Am_, n=n_), sig='pow:classes')
            angs_ = [30.0, -75.0, 200.0]
            ok, r = L.noraise('SO2(list, deg)', lambda: ([np.asarray(x_, float) for x_ in SO2(angs_, unit='deg').data], [np.asarray(x_, float) for x_ in SO2(np.array(angs_), unit='deg').data], [np.asarray(x_, float)[:2, :2] for x_ in SO2(angs_, unit='deg').SE2().data]), dict(angles=angs_), 'SO2(list of angles, unit=deg)')
            if ok:
                for k_, a_ in enumerate(angs_):
                    for nm_, got_ in (('SO2(list,deg)', r[0]), ('SO2(array,deg)', r[1]), ('SO2(list,deg).SE2()', r[2])):
                        if len(got_) == 3: L.close(nm_, got_[k_], inputs.r2(math.radians(a_)), TOL, 1.0, dict(angles=angs_, k=k_), what=f'{nm_}: element k is not the rotation by angle k in degrees', sig='SO2(list,deg)')
        # two-vector frames from vectors that are neither unit nor perpendicular: the same rotation in every class
        if i % 4 == 3:
            oo_ = g.normal(size=3) * 10.0 ** g.uniform(-1, 1); aa_ = g.normal(size=3) * 10.0 ** g.uniform(-1, 1)
            if np.linalg.norm(np.cross(oo_, aa_)) > 0.2 * np.linalg.norm(oo_) * np.linalg.norm(aa_):
                ok, r = L.noraise('OA(all classes)', lambda: (SO3.OA(oo_, aa_).A, SE3.OA(oo_, aa_).A[:3, :3], UnitQuaternion.OA(oo_, aa_).R, b.oa2r(oo_, aa_)), dict(o=oo_, a=aa_), 'OA constructors')
                if ok:
                    for nm_, got_ in (('SO3.OA', r[0]), ('SE3.OA', r[1]), ('UnitQuaternion.OA', r[2])):
                        L.close(f'{nm_}=oa2r', got_, r[3], TOL, 1.0, dict(o=oo_, a=aa_), what=f'{nm_} of two vectors that are not perpendicular differs from base.oa2r', sig='OA:classes')
                    an_ = aa_ / np.linalg.norm(aa_); L.close('oa2r:approach-axis', r[3][:, 2], an_, TOL, 1.0, dict(o=oo_, a=aa_), what='the third column of oa2r is not the normalised approach vector', sig='OA:classes')
        # product of a sequence of twists (3 and 4 values) equals the product of the motions
        if i % 3 == 0:
            Xs_ = [SE3(inputs.se3(g, 2), check=False) for _ in range(4)]
            for nn_ in (3, 4):
                ok, r = L.noraise('Twist3.prod', lambda: (Twist3([x_.Twist3() for x_ in Xs_[:nn_]]).prod().SE3().A, np.linalg.multi_dot([x_.A for x_ in Xs_[:nn_]])), dict(n=nn_), 'Twist3.prod()')
                if ok: L.close('Twist3.prod', r[0], r[1], TOL, max(1.0, geom.tmag(r[1])), dict(n=nn_), what='prod() of a sequence of twists differs from the product of the motions', sig='Twist.prod')
            Es_ = [SE2(inputs.se2(g, 2), check=False) for _ in range(3)]
            ok, r = L.noraise('Twist2.prod', lambda: (Twist2([x_.Twist2() for x_ in Es_]).prod().SE2().A, np.linalg.multi_dot([x_.A for x_ in Es_])), {}, 'Twist2.prod()')
            if ok: L.close('Twist2.prod', r[0], r[1], TOL, max(1.0, geom.tmag(r[1])), {}, sig='Twist.prod')
        # 2-D pose <-> twist
        ok, r = L.noraise('SE2->Twist2->SE2', lambda: e1.Twist2().SE2().A, dict(T=e1.A), 'SE2 -> Twist2 -> SE2')
        if ok: L.close('SE2->Twist2->SE2', r, e1.A, TOL, max(1.0, geom.tmag(e1.A)), dict(T=e1.A))
        # expression trees evaluated independently in SO3 and UQ
        if i % 3 == 0:
            def tree(d):
                r = g.random()
                if d == 0 or r < 0.25:
                    M = inputs.so3(g); return SO3(M, check=False), UnitQuaternion(SO3(M, check=False))
                if r < 0.6:
                    (x1, q1), (x2, q2) = tree(d - 1), tree(d - 1); return x1 * x2, q1 * q2
                if r < 0.8:
                    (x1, q1), (x2, q2) = tree(d - 1), tree(d - 1); return x1 / x2, q1 / q2
                x1, q1 = tree(d - 1); return x1.inv(), q1.inv()
            depth = int(g.integers(1, 5))
            ok, r = L.noraise('expr SO3 vs UQ', lambda: tree(depth), dict(depth=depth), 'expression tree in SO3 and UnitQuaternion')
            if ok: L.close('expr SO3 vs UQ', r[1].R, r[0].A, TOL, 1.0, dict(depth=depth))
    # round 11: SE3.Rx / Ry / Rz with the t= option agree with transl(t)·rot (class product, base function with t=, SO3 and quaternion rotation block)
    t_ = np.array([1.0, 2.0, 3.0])
    for ax_, bf_, bt_ in (('Rx', b.rotx, b.trotx), ('Ry', b.roty, b.troty), ('Rz', b.rotz, b.trotz)):
        for th_, un_ in ((0.3, 'rad'), (-2.1, 'rad'), (75.0, 'deg'), ([0.3, -1.2], 'rad'), ([20.0, 200.0], 'deg')):
            inp_ = dict(axis=ax_, theta=th_, unit=un_, t=t_)
            ok, r = L.noraise(f'SE3.{ax_}(t=)', lambda: getattr(SE3, ax_)(th_, un_, t=t_), inp_, f'SE3.{ax_}(theta, unit, t=t)', sig=f'SE3.{ax_}(t=):raises')
            if not ok: continue
            ths_ = th_ if isinstance(th_, list) else [th_]
            L.check(f'SE3.{ax_}(t=):len', len(r) == len(ths_), inp_, 'one pose per angle expected')
            for k_, a_ in enumerate(ths_[:len(r)]):
                ref_ = np.eye(4); ref_[:3, :3] = bf_(a_, un_); ref_[:3, 3] = t_
                L.close(f'SE3.{ax_}(t=)', np.asarray(r[k_].A, float), ref_, 1e-12, 3.0, dict(inp_, k=k_), what=f'SE3.{ax_}(θ, t=t) is not transl(t)·rot(θ)', sig=f'SE3.{ax_}(t=)')
                L.close(f'SE3.{ax_}(t=) = SE3(t)*SE3.{ax_}', np.asarray(r[k_].A, float), (SE3(t_) * getattr(SE3, ax_)(a_, un_)).A, 1e-12, 3.0, dict(inp_, k=k_), sig=f'SE3.{ax_}(t=)')
                L.close(f'SE3.{ax_}(t=) = trot(t=)', np.asarray(r[k_].A, float), bt_(a_, un_, t=t_), 1e-12, 3.0, dict(inp_, k=k_), sig=f'SE3.{ax_}(t=)')
    return L.result()

if __name__ == '__main__':
    main_entry(_impl)
