"""C05 — angle-set / axis-angle extraction is a right inverse of construction (float monitor)."""
import math
import numpy as np
from .common import Laws, run_subprocess, main_entry
from .. import inputs
from . import geom

SPEC = dict(
    technique='Lean 4 proof (angle sets = documented products, units, orders; regenerated model) + float monitor of the extraction functions',
    lean_modules=['SmVerif.Props.C05', 'SmVerif.Props.Singular'],
    groups=['Transforms3d', 'Transforms2d'],
    expected_untranslatable=('trinterp_T', 'trinterp_T_nostart'),
    partial=['round trips inside the singular bands (not exactly on the singularity) are explored; the exactly singular configurations, every non-singular branch, documented axis orders, '
             'unit conversion and planar round trips are proved'],
    assumptions=['reconstruction is compared at 1e-6 on generated inputs only (forward model: numpy products of axis rotations)'],
)

def monitor(tier, seed, search=False):
    return run_subprocess('smv.props.c05', tier, seed, search)

def replay(rp):
    r = run_subprocess('smv.props.c05', 'quick', 0, True)
    hit = [v for v in r['violations'] if v['signature'] == rp.get('signature')]
    return dict(violates=bool(hit), detail=hit[:1])

RX, RY, RZ = inputs.rx, inputs.ry, inputs.rz
def fwd_rpy(a, order):
    r, p, y = a
    if order in ('zyx', 'vehicle'): return RZ(y) @ RY(p) @ RX(r)
    if order in ('xyz', 'arm'): return RX(y) @ RY(p) @ RZ(r)
    if order in ('yxz', 'camera'): return RY(y) @ RX(p) @ RZ(r)
def fwd_eul(a): return RZ(a[0]) @ RY(a[1]) @ RZ(a[2])

def sing_angle(g, sing):
    """angle at / near one of the singular values, or anywhere"""
    r = g.random()
    if r < 0.25: return float(g.choice(sing))
    if r < 0.6: return float(g.choice(sing)) + float(g.choice([-1, 1])) * 10.0 ** g.uniform(-12, -1)
    return float(g.uniform(-math.pi, math.pi))

def _impl(tier, seed, search):
    import spatialmath.base as b
    from spatialmath import SO2, SE2, SO3, SE3, UnitQuaternion
    g = inputs.rng(seed)
    n = 200 if tier == 'quick' else 4000
    if search: n *= 3
    TOL = 1e-6
    L = Laws('C05', rule='angle triples over the full range, exact singular values and offsets 1e-12..1e-1 either side; three RPY orders + aliases; '
                         'flip on/off; deg/rad; SO(3) and SE(3) inputs; base functions and class methods; a case = one reconstruction or range check')
    ORD = ['zyx', 'xyz', 'yxz', 'vehicle', 'arm', 'camera']
    PI = math.pi
    for i in range(n):
        o = ORD[i % 6]
        def outer_angle():          # roll / yaw: exact special values a third of the time
            return float(g.choice([0.0, PI / 2, -PI / 2, PI, -PI, PI / 4])) if g.random() < 0.33 else float(g.uniform(-PI, PI))
        a = np.array([outer_angle(), sing_angle(g, [PI / 2, -PI / 2]), outer_angle()])
        # --- constructors follow the documented orders ------------------------------------------
        L.close(f'rpy2r-order-{o}', b.rpy2r(a, order=o), fwd_rpy(a, o), 1e-12, 1.0, dict(angles=a, order=o))
        L.close('rpy2r-deg', b.rpy2r(np.degrees(a), order=o, unit='deg'), b.rpy2r(a, order=o), 1e-12, 1.0, dict(angles=a, order=o))
        # Euler / roll-pitch-yaw / axis-angle of unit quaternions built from matrices whose rotation angle is 1e-13 .. 1e-10 from pi about a
        # general axis (the quaternion's vector part must come out along the axis): the extraction rebuilds the rotation
        if o == 'yxz':
            dm_ = float(g.choice([-1, 1])) * 10.0 ** g.uniform(-13, -10); Eq_ = RZ(a[0]) @ RY(math.pi + dm_) @ RZ(a[2])
            for nm_, f_ in (('UnitQuaternion.Eul(..pi+-d..).eul()', lambda: b.eul2r(UnitQuaternion.Eul([a[0], math.pi + dm_, a[2]]).eul())), ('UnitQuaternion(R).eul()', lambda: b.eul2r(UnitQuaternion(Eq_).eul())), ('UnitQuaternion(R).rpy()', lambda: b.rpy2r(UnitQuaternion(Eq_).rpy())),
                            ('UnitQuaternion(R).R', lambda: UnitQuaternion(Eq_).R), ('UnitQuaternion(R).angvec()', lambda: b.angvec2r(*UnitQuaternion(Eq_).angvec()))):
                ok, r_ = L.noraise(nm_, f_, dict(angles=[a[0], math.pi + dm_, a[2]]), nm_)
                if ok: L.close(f'UQ(near half turn):{nm_}', r_, Eq_, TOL, 1.0, dict(angles=[a[0], math.pi + dm_, a[2]]), what=f'{nm_} does not rebuild a rotation whose angle is within 1e-10 of pi about a general axis', sig='UQ:near-half-turn')
        # axis-angle constructors of every class with an axis that is not of unit length: rotation by theta about the normalised axis
        if o == 'zyx':
            vax_ = inputs.unit_axis(g) * 10.0 ** g.uniform(-1, 1); tha_ = float(g.uniform(-3, 3)); wantav_ = inputs.rodrigues(vax_ / np.linalg.norm(vax_), tha_)
            for cn_, f_ in (('SO3.AngVec', lambda: SO3.AngVec(tha_, vax_).A), ('SE3.AngVec', lambda: SE3.AngVec(tha_, vax_).A[:3, :3]), ('UnitQuaternion.AngVec', lambda: UnitQuaternion.AngVec(tha_, vax_).R),
                            ('UnitQuaternion.AngVec(deg)', lambda: UnitQuaternion.AngVec(math.degrees(tha_), vax_, unit='deg').R), ('angvec2r', lambda: b.angvec2r(tha_, vax_)), ('UnitQuaternion.AngVec(theta, theta*v)', lambda: UnitQuaternion.AngVec(tha_, tha_ * vax_ / np.linalg.norm(vax_) if tha_ > 0 else vax_).R)):
                ok, r_ = L.noraise(cn_, f_, dict(theta=tha_, v=vax_), cn_)
                if ok: L.close(f'{cn_}(non-unit axis)', r_, wantav_, 1e-7 if 'Quaternion' in cn_ else 1e-9, 1.0, dict(theta=tha_, v=vax_), what=f'{cn_} with an axis that is not of unit length is not the rotation by theta about the normalised axis', sig=f'class-angvec:{cn_.split("(")[0]}')
        # Euler angles next to the singularity (middle angle 1e-13 .. 1e-9 from 0 or pi, outside the singular branch) of matrices that carry
        # ordinary rounding noise (a product and its undoing): rebuilding reproduces R
        if o == 'xyz':
            mid_ = float(g.choice([0.0, math.pi])) + float(g.choice([-1, 1])) * 10.0 ** g.uniform(-13, -9.5); En_ = RZ(a[0]) @ RY(mid_) @ RZ(a[2]); An_ = inputs.so3(g); Rn_ = An_.T @ (An_ @ En_)
            for fl_ in (False, True):
                ok, r_ = L.noraise('tr2eul(near singular, noisy)', lambda: (b.eul2r(b.tr2eul(Rn_, flip=fl_)), b.eul2r(SO3(Rn_, check=False).eul(flip=fl_)), b.eul2r(b.tr2eul(Rn_, flip=fl_, unit='deg'), unit='deg')), dict(R=Rn_, middle=mid_, flip=fl_), 'tr2eul next to the singularity')
                if ok:
                    for nn_, got_ in zip(('tr2eul', 'SO3.eul', 'tr2eul(deg)'), r_):
                        L.close(f'eul-roundtrip(near singular, noisy):{nn_}', got_, Rn_, TOL, 1.0, dict(R=Rn_, middle=mid_, flip=fl_), what='eul2r(tr2eul(R)) differs from R next to the Euler singularity for a matrix carrying rounding noise', sig='eul-roundtrip:near-singular-noisy')
        # … several triples at once (N x 3), both units, in each class: value k is the documented product for triple k
        if o in ('zyx', 'xyz', 'yxz'):
            a2_ = np.array([a, a[::-1] * 0.5]); 
            for un_ in ('rad', 'deg'):
                au_ = a2_ if un_ == 'rad' else np.degrees(a2_)
                for cn_, f_ in (('SE3.RPY', lambda: [np.asarray(x_, float)[:3, :3] for x_ in SE3.RPY(au_, order=o, unit=un_).data]), ('SO3.RPY', lambda: [np.asarray(x_, float) for x_ in SO3.RPY(au_, order=o, unit=un_).data]),
                                ('SE3.RPY(list)', lambda: [np.asarray(x_, float)[:3, :3] for x_ in SE3.RPY([list(r_) for r_ in au_], order=o, unit=un_).data]), ('SE3.Eul', lambda: [np.asarray(x_, float)[:3, :3] for x_ in SE3.Eul(au_, unit=un_).data]),
                                ('SO3.Eul', lambda: [np.asarray(x_, float) for x_ in SO3.Eul(au_, unit=un_).data])):
                    ok, r_ = L.noraise(f'{cn_}(Nx3,{un_})', f_, dict(angles=a2_, order=o, unit=un_), f'{cn_}(N x 3, unit={un_})')
                    if ok and len(r_) == 2:
                        for k_ in range(2):
                            want_ = fwd_rpy(a2_[k_], o) if 'RPY' in cn_ else RZ(a2_[k_][0]) @ RY(a2_[k_][1]) @ RZ(a2_[k_][2])
                            L.close(f'{cn_}(Nx3,{un_})', r_[k_], want_, 1e-9, 1.0, dict(angles=a2_, order=o, unit=un_, k=k_), what=f'value k of {cn_}(N x 3 array, unit={un_}) is not the documented product for row k', sig=f'class-Nx3:{cn_.split("(")[0]}')
                    elif ok: L.check(f'{cn_}(Nx3):len', False, dict(angles=a2_), f'{cn_}(2 x 3) gives {len(r_)} values', sig=f'class-Nx3:{cn_.split("(")[0]}')
        # … in every class that offers the constructor, for every order and alias
        for cn_, f_ in (('SO3.RPY', lambda: SO3.RPY(a, order=o).A), ('SE3.RPY', lambda: SE3.RPY(a, order=o).A[:3, :3]), ('UnitQuaternion.RPY', lambda: UnitQuaternion.RPY(a, order=o).R), ('rpy2tr', lambda: b.rpy2tr(a, order=o)[:3, :3]),
                        ('UnitQuaternion.RPY(deg)', lambda: UnitQuaternion.RPY(np.degrees(a), order=o, unit='deg').R)):
            ok, r_ = L.noraise(f'{cn_}-order', f_, dict(angles=a, order=o), f'{cn_}(order={o})')
            if ok: L.close(f'{cn_}-order-{o}', r_, fwd_rpy(a, o), 1e-7 if 'Quaternion' in cn_ else 1e-9, 1.0,      # (through r2q: sqrt(eps) conditioning at a half turn)
                             dict(angles=a, order=o), what=f'{cn_} does not build the documented product for order {o}', sig=f'class-rpy-order:{cn_.split("(")[0]}')
        e = np.array([outer_angle(), sing_angle(g, [0.0, PI, -PI]), outer_angle()])
        L.close('eul2r-order', b.eul2r(e), fwd_eul(e), 1e-12, 1.0, dict(angles=e))
        # --- rpy round trip ---------------------------------------------------------------------
        R = fwd_rpy(a, o)
        inp = dict(angles=a, order=o, R=R)
        ok, x = L.noraise(f'tr2rpy-{o}', lambda: b.tr2rpy(R, order=o), inp, 'tr2rpy')
        if ok:
            L.close(f'rpy-roundtrip-{o}', fwd_rpy(x, o), R, TOL, 1.0, inp, sig=f'rpy-roundtrip-{o[:3] if o in ("zyx","xyz","yxz") else o}')
            L.check('rpy-range', bool(np.all(np.abs(x) <= PI + 1e-12) and abs(x[1]) <= PI / 2 + 1e-9), inp, 'extracted rpy angles out of range', observed=x)
            ok2, xd = L.noraise('tr2rpy-deg', lambda: b.tr2rpy(R, order=o, unit='deg'), inp, 'tr2rpy deg')
            if ok2: L.close('rpy-deg', xd, np.degrees(x), 1e-9, 180.0, inp)
            T = np.eye(4); T[:3, :3] = R; T[:3, 3] = g.normal(size=3)
            ok2, xt = L.noraise('tr2rpy-T', lambda: b.tr2rpy(T, order=o), inp, 'tr2rpy(4x4)')
            if ok2: L.close('rpy-SE3-input', xt, x, 1e-12, PI, inp)
        for cname, mk in (('SO3', lambda: SO3(R, check=False)), ('SE3', lambda: SE3(b.r2t(R), check=False)), ('UQ', lambda: UnitQuaternion(SO3(R, check=False)))):
            ok, x = L.noraise(f'{cname}.rpy', lambda: np.asarray(mk().rpy(order=o)).flatten(), inp, f'{cname}.rpy()')
            if ok: L.close(f'{cname}.rpy-roundtrip', fwd_rpy(x, o), R, TOL, 1.0, inp)
        # --- euler round trip -------------------------------------------------------------------
        Re = fwd_eul(e); inpe = dict(angles=e, R=Re)
        for flip in (False, True):
            ok, x = L.noraise('tr2eul', lambda: b.tr2eul(Re, flip=flip), dict(inpe, flip=flip), 'tr2eul')
            if ok:
                L.close(f'eul-roundtrip-flip={flip}', fwd_eul(x), Re, TOL, 1.0, dict(inpe, flip=flip))
                L.check('eul-range', bool(np.all(np.abs(x) <= PI + 1e-12)), inpe, 'extracted Euler angles out of range', observed=x)
        ok, x = L.noraise('tr2eul-deg', lambda: (b.tr2eul(Re, unit='deg'), b.tr2eul(Re)), inpe, 'tr2eul deg')
        if ok: L.close('eul-deg', x[0], np.degrees(x[1]), 1e-9, 180.0, inpe)
        for cname, mk in (('SO3', lambda: SO3(Re, check=False)), ('SE3', lambda: SE3(b.r2t(Re), check=False)), ('UQ', lambda: UnitQuaternion(SO3(Re, check=False)))):
            ok, x = L.noraise(f'{cname}.eul', lambda: np.asarray(mk().eul()).flatten(), inpe, f'{cname}.eul()')
            if ok: L.close(f'{cname}.eul-roundtrip', fwd_eul(x), Re, TOL, 1.0, inpe)
        # --- axis-angle -------------------------------------------------------------------------
        ax = inputs.unit_axis(g); r = g.random()
        th = 0.0 if r < 0.08 else (PI if r < 0.16 else (10.0 ** g.uniform(-12, -1) if r < 0.4 else (PI - 10.0 ** g.uniform(-12, -1) if r < 0.64 else float(g.uniform(0, PI)))))
        Ra = inputs.rodrigues(ax, th); inpa = dict(axis=ax, theta=th, R=Ra)
        sc = float(10.0 ** g.uniform(-3, 6))
        L.close('angvec2r-normalises', b.angvec2r(th, ax * sc), Ra, 1e-9, 1.0, dict(inpa, scale=sc))
        L.close('angvec2r-deg', b.angvec2r(math.degrees(th), ax, unit='deg'), Ra, 1e-9, 1.0, inpa)
        ok, x = L.noraise('tr2angvec', lambda: b.tr2angvec(Ra), inpa, 'tr2angvec')
        if ok:
            tha, va = x
            good = va is not None and np.all(np.isfinite(np.r_[tha, va]))
            L.check('angvec:finite', good, inpa, f'tr2angvec returns a non-finite angle or no axis at rotation angle {th:.3g}', sig='angvec:nonfinite', observed=repr(x)[:120])
            if good:
                L.check('angvec-range', -1e-12 <= tha <= PI + 1e-9, inpa, 'extracted rotation angle outside [0, pi]', observed=tha)
                nv = float(np.linalg.norm(va))
                L.check('angvec-unit-axis', abs(nv - 1) <= 1e-9 or (nv == 0 and abs(tha) <= 1e-9), inpa, 'axis is neither unit nor zero-for-zero-angle', observed=nv)
                if nv > 0: L.close('angvec-roundtrip', inputs.rodrigues(va / nv, tha), Ra, TOL, 1.0, inpa)
                else: L.close('angvec-roundtrip', np.eye(3), Ra, TOL, 1.0, inpa)
                ok2, xd = L.noraise('tr2angvec-deg', lambda: b.tr2angvec(Ra, unit='deg'), inpa, 'tr2angvec deg')
                if ok2: L.close('angvec-deg', xd[0], math.degrees(tha), 1e-9, 180.0, inpa)
        for cname, mk in (('SO3', lambda: SO3(Ra, check=False)), ('SE3', lambda: SE3(b.r2t(Ra), check=False)), ('UQ', lambda: UnitQuaternion(SO3(Ra, check=False)))):
            ok, x = L.noraise(f'{cname}.angvec', lambda: mk().angvec(), inpa, f'{cname}.angvec()')
            if ok and x[1] is not None and np.all(np.isfinite(np.r_[x[0], x[1]])):
                nv = float(np.linalg.norm(x[1]))
                L.close(f'{cname}.angvec-roundtrip', inputs.rodrigues(x[1] / nv, x[0]) if nv > 0 else np.eye(3), Ra, TOL, 1.0, inpa)
                L.check(f'{cname}.angvec-range', -1e-12 <= float(x[0]) <= PI + 1e-9, inpa, f'{cname}.angvec(): rotation angle outside [0, pi]', observed=float(x[0]), sig=f'{cname}.angvec-range')
        # angle * axis as a rotation vector rebuilds the rotation in every class — the zero rotation included (axis may be anything then)
        for Rz_ in (Ra, np.eye(3)):
            ok, x = L.noraise('angvec->EulerVec', lambda: (lambda tv: (SO3.EulerVec(tv[0] * np.asarray(tv[1], float)).A, SE3.EulerVec(tv[0] * np.asarray(tv[1], float)).A[:3, :3], UnitQuaternion.EulerVec(tv[0] * np.asarray(tv[1], float)).R))(SO3(Rz_, check=False).angvec()),
                              dict(R=Rz_), 'EulerVec(theta * v) with (theta, v) = angvec()', sig='angvec->EulerVec:raises')
            if ok:
                for nm_, M_ in zip(('SO3', 'SE3', 'UQ'), x):
                    L.check(f'{nm_}.EulerVec(angvec):finite', bool(np.all(np.isfinite(np.asarray(M_, float)))), dict(R=Rz_), f'{nm_}.EulerVec(theta * v) is not finite', sig='angvec->EulerVec')
                    if np.all(np.isfinite(np.asarray(M_, float))): L.close(f'{nm_}.EulerVec(angvec)', M_, Rz_, TOL, 1.0, dict(R=Rz_), sig='angvec->EulerVec')
        # both quaternions of the rotation (q and -q) must give an angle in [0, pi] and the same rotation
        qa = b.r2q(Ra)
        for sgn in (1.0, -1.0):
            ok, x = L.noraise('UQ.angvec-sign', lambda: UnitQuaternion(sgn * qa, norm=False, check=False).angvec(), dict(inpa, q=sgn * qa), 'UnitQuaternion(+-q).angvec()')
            if ok and x[1] is not None and np.all(np.isfinite(np.r_[x[0], x[1]])):
                nv = float(np.linalg.norm(x[1]))
                L.check('UQ.angvec-range', -1e-12 <= float(x[0]) <= PI + 1e-9, dict(inpa, q=sgn * qa), 'UnitQuaternion.angvec(): rotation angle outside [0, pi]', observed=float(x[0]), sig='UQ.angvec-range')
                L.close('UQ.angvec-roundtrip', inputs.rodrigues(x[1] / nv, x[0]) if nv > 0 else np.eye(3), Ra, TOL, 1.0, dict(inpa, q=sgn * qa))
        # exactly symmetric half turns (zero skew part): diagonal ones and 2aa' - I about axes inside a coordinate plane
        if i % 6 == 0:
            halves = [np.diag([1.0, -1, -1]), np.diag([-1.0, 1, -1]), np.diag([-1.0, -1, 1])]
            for a_ in ([0, 1, 1], [1, 0, 1], [1, 1, 0], [0, 3, 4], [0, -1, 2], [1, 2, 2]):
                a_ = np.array(a_, float) / np.linalg.norm(a_); H_ = 2 * np.outer(a_, a_) - np.eye(3); halves.append((H_ + H_.T) / 2)
            for H_ in halves:
                for cname, f_ in (('tr2angvec', lambda: b.tr2angvec(H_)), ('SO3.angvec', lambda: SO3(H_, check=False).angvec()), ('UQ.angvec', lambda: UnitQuaternion(SO3(H_, check=False)).angvec())):
                    ok, x = L.noraise(f'{cname}(half turn)', f_, dict(R=H_), f'{cname} of an exactly symmetric half turn')
                    if ok:
                        good_ = x[1] is not None and np.all(np.isfinite(np.r_[x[0], x[1]]))
                        L.check('angvec:finite', good_, dict(R=H_), f'{cname} returns a non-finite angle / axis for an exactly symmetric half turn', sig='angvec:nonfinite:halfturn', observed=repr(x)[:100])
                        if good_:
                            nv = float(np.linalg.norm(x[1]))
                            L.close('angvec-roundtrip(half turn)', inputs.rodrigues(np.asarray(x[1], float) / nv, float(x[0])), H_, TOL, 1.0, dict(R=H_), sig='angvec-roundtrip:halfturn')
        # --- planar -----------------------------------------------------------------------------
        xyt = np.r_[g.normal(size=2) * 10.0 ** g.uniform(-3, 3), sing_angle(g, [0.0, PI, PI / 2])]
        if xyt[2] > PI: xyt[2] -= 2 * PI
        if xyt[2] <= -PI: xyt[2] += 2 * PI
        T2 = np.eye(3); T2[:2, :2] = inputs.r2(xyt[2]); T2[:2, 2] = xyt[:2]
        L.close('xyt2tr', b.xyt2tr(xyt), T2, 1e-12, max(1.0, float(np.max(np.abs(xyt[:2])))), dict(xyt=xyt))
        ok, x = L.noraise('tr2xyt', lambda: b.tr2xyt(T2), dict(T=T2), 'tr2xyt')
        if ok:
            L.close('xyt-roundtrip', b.xyt2tr(x), T2, TOL, max(1.0, float(np.max(np.abs(xyt[:2])))), dict(xyt=xyt))
            L.check('xyt-range', abs(x[2]) <= PI + 1e-12, dict(xyt=xyt), 'planar angle out of range')
        # the scalar forms of the planar constructor on the x-axis with zero heading, and with zero y only
        if i % 7 == 0:
            xs0 = float(g.choice([3.0, -2.5, 0.5]))
            for nm_, mk_, want_ in (('SE2(x,0,0)', lambda: SE2(xs0, 0, 0).A, b.xyt2tr([xs0, 0, 0])), ('SE2(x,0.0,0.0)', lambda: SE2(xs0, 0.0, 0.0).A, b.xyt2tr([xs0, 0, 0])), ('SE2(x,0,th)', lambda: SE2(xs0, 0, 0.7).A, b.xyt2tr([xs0, 0, 0.7])),
                                    ('SE2(0,y,0)', lambda: SE2(0, xs0, 0).A, b.xyt2tr([0, xs0, 0])), ('SE2(*SE2([x,0,0]).xyt())', lambda: SE2(*SE2([xs0, 0, 0]).xyt()).A, b.xyt2tr([xs0, 0, 0])), ('SE2(x,0)', lambda: SE2(xs0, 0).A, b.xyt2tr([xs0, 0, 0]))):
                ok, r = L.noraise(nm_, mk_, dict(x=xs0), nm_)
                if ok: L.close(nm_, r, want_, 1e-12, 3.0, dict(x=xs0), what=f'{nm_} is not the pose (x, y, theta) it was given', sig='SE2(scalars)')
        # the class accessor on one and on several values (every quadrant), both units
        if i % 3 == 0:
            xs_ = [xyt, np.r_[xyt[1], -xyt[0], -xyt[2]], np.r_[1.0, 2.0, float(g.choice([2.0, -2.5, 3.0, -0.4]))]]
            for un_ in ('rad',):
                ok, r = L.noraise(f'SE2.xyt(multi,{un_})', lambda: (np.asarray(SE2([b.xyt2tr(x_) for x_ in xs_]).xyt(unit=un_) if un_ == 'deg' else SE2([b.xyt2tr(x_) for x_ in xs_]).xyt(), float), np.asarray(SE2(b.xyt2tr(xs_[0])).xyt(), float)), dict(xyt=xs_), 'SE2.xyt()')
                if ok and r[0].shape in ((3, 3),):
                    for k_ in range(3):
                        got_ = r[0][k_] if un_ == 'rad' else np.r_[r[0][k_][:2], math.radians(r[0][k_][2])]
                        L.close(f'SE2.xyt(multi,{un_})', b.xyt2tr(got_), b.xyt2tr(xs_[k_]), TOL, max(1.0, float(np.max(np.abs(xs_[k_][:2])))), dict(xyt=xs_, k=k_, unit=un_), what='row k of SE2.xyt() on several values does not rebuild value k', sig='SE2.xyt:multi')
                elif ok: L.check('SE2.xyt(multi):shape', False, dict(xyt=xs_), f'SE2.xyt() of 3 values has shape {r[0].shape}', sig='SE2.xyt:multi')
                if ok and un_ == 'rad': L.close('SE2.xyt(single)', b.xyt2tr(r[1].flatten()), b.xyt2tr(xs_[0]), TOL, max(1.0, float(np.max(np.abs(xs_[0][:2])))), dict(xyt=xs_[0]), sig='SE2.xyt:multi')
        ok, xd = L.noraise('tr2xyt(deg)', lambda: b.tr2xyt(T2, unit='deg'), dict(T=T2), "tr2xyt(unit='deg')")
        if ok:
            L.close('xyt-roundtrip(deg)', b.xyt2tr(xd, unit='deg'), T2, TOL, max(1.0, float(np.max(np.abs(xyt[:2])))), dict(xyt=xyt), what="xyt2tr(tr2xyt(T, 'deg'), 'deg') does not reproduce T")
            L.close('xyt(deg):translation', np.asarray(xd, float)[:2], T2[:2, 2], 1e-12, max(1.0, float(np.max(np.abs(xyt[:2])))), dict(xyt=xyt), what="tr2xyt(unit='deg') changes the translation", sig='xyt-roundtrip(deg)')
        # planar poses stored with integer entries (quarter turns, integer translations): the angle is not truncated
        if i % 6 == 0:
            for qk in (1, 2, 3, 0):
                Ri = np.array([[0, -1], [1, 0]], dtype=int); Mi = np.eye(3, dtype=int); Mi[:2, :2] = np.linalg.matrix_power(Ri, qk); Mi[:2, 2] = g.integers(-5, 6, size=2)
                ok, xi = L.noraise('SE2(int).xyt', lambda: (np.asarray(SE2(Mi).xyt(), float), np.asarray(b.tr2xyt(Mi), float)), dict(T=Mi), 'xyt of an integer-valued planar pose')
                if ok:
                    for nm_, v_ in (('SE2.xyt', xi[0]), ('tr2xyt', xi[1])):
                        L.close(f'{nm_}(int)-roundtrip', b.xyt2tr(v_), Mi.astype(float), TOL, max(1.0, float(np.max(np.abs(Mi[:2, 2])))), dict(T=Mi), what=f'{nm_} of an integer-valued pose does not rebuild the pose', sig='xyt:int')
        ok, x = L.noraise('SE2.xyt', lambda: SE2(T2, check=False).xyt(), dict(T=T2), 'SE2.xyt()')
        if ok: L.close('SE2.xyt-roundtrip', b.xyt2tr(x), T2, TOL, max(1.0, float(np.max(np.abs(xyt[:2])))), dict(xyt=xyt))
        ok, x = L.noraise('SO2.theta', lambda: (SO2(T2[:2, :2], check=False).theta(), SO2(T2[:2, :2], check=False).theta(unit='deg')), dict(T=T2), 'SO2.theta()')
        if ok:
            L.close('SO2.theta-roundtrip', inputs.r2(x[0]), T2[:2, :2], TOL, 1.0, dict(theta=xyt[2])); L.close('SO2.theta-deg', x[1], math.degrees(x[0]), 1e-9, 180.0, dict(theta=xyt[2]))
        # the same extraction on multi-valued objects, in both units, must agree element by element with the single-valued call
        if i % 5 == 0:
            R2a, R2b = T2[:2, :2], inputs.r2(float(g.uniform(-PI, PI)))
            for un in ('rad', 'deg'):
                ok, x = L.noraise(f'SO2.theta(multi,{un})', lambda: (list(np.ravel(SO2([R2a, R2b], check=False).theta(unit=un))), [SO2(R2a, check=False).theta(unit=un), SO2(R2b, check=False).theta(unit=un)]),
                                  dict(unit=un), 'SO2.theta() on a 2-valued object')
                if ok: L.close(f'SO2.theta(multi,{un})', x[0], x[1], 1e-12, 180.0, dict(unit=un), what='theta() on a multi-valued object differs from the single-valued calls', sig=f'multi:SO2.theta:{un}')
                Ta_ = np.eye(3); Ta_[:2, :2] = R2b; Ta_[:2, 2] = [0.3, -1.0]
                ok, x = L.noraise(f'SE2.theta(multi,{un})', lambda: (list(np.ravel(SE2([T2, Ta_], check=False).theta(unit=un))), [SE2(T2, check=False).theta(unit=un), SE2(Ta_, check=False).theta(unit=un)]),
                                  dict(unit=un), 'SE2.theta() on a 2-valued object')
                if ok: L.close(f'SE2.theta(multi,{un})', x[0], x[1], 1e-12, 180.0, dict(unit=un), sig=f'multi:SE2.theta:{un}')
            Ra_, Rb_ = inputs.so3(g), inputs.so3(g)
            X2 = SO3([Ra_, Rb_], check=False)
            def rows(A_):
                A_ = np.asarray(A_, float); return A_ if A_.shape == (2, 3) else A_.T
            for un in ('rad', 'deg'):
                for o in ('zyx', 'xyz', 'yxz'):
                    ok, x = L.noraise(f'SO3.rpy(multi,{o},{un})', lambda: (rows(X2.rpy(unit=un, order=o)), np.stack([SO3(Ra_, check=False).rpy(unit=un, order=o), SO3(Rb_, check=False).rpy(unit=un, order=o)])),
                                      dict(unit=un, order=o), 'SO3.rpy() on a 2-valued object')
                    if ok: L.close(f'SO3.rpy(multi,{o},{un})', x[0], x[1], 1e-12, 180.0, dict(unit=un, order=o), what='rpy() on a multi-valued object differs from the single-valued calls', sig=f'multi:SO3.rpy:{o}')
                ok, x = L.noraise(f'SO3.eul(multi,{un})', lambda: (rows(X2.eul(unit=un)), np.stack([SO3(Ra_, check=False).eul(unit=un), SO3(Rb_, check=False).eul(unit=un)])), dict(unit=un), 'SO3.eul() on a 2-valued object')
                if ok: L.close(f'SO3.eul(multi,{un})', x[0], x[1], 1e-12, 180.0, dict(unit=un), sig='multi:SO3.eul')
    # round 11: UnitQuaternion.AngVec(θ, v) for |θ| beyond a half turn is the rotation by θ about v (Rodrigues written out here), as SO3.AngVec / angvec2r
    for th_, un_ in ((4.0, 'rad'), (200.0, 'deg'), (-270.0, 'deg'), (math.pi + 1e-3, 'rad'), (7.0, 'rad'), (-5.5, 'rad'), (2.0, 'rad'), (-3.0, 'rad')):
        v_ = np.array([1.0, 2.0, 3.0]); u_ = v_ / np.linalg.norm(v_); a_ = th_ if un_ == 'rad' else th_ * math.pi / 180
        K_ = np.array([[0, -u_[2], u_[1]], [u_[2], 0, -u_[0]], [-u_[1], u_[0], 0]]); ref_ = np.eye(3) + math.sin(a_) * K_ + (1 - math.cos(a_)) * (K_ @ K_)
        inp_ = dict(theta=th_, unit=un_, v=v_)
        for nm_, f_ in (('UnitQuaternion.AngVec', lambda: UnitQuaternion.AngVec(th_, v_, unit=un_).R), ('SO3.AngVec', lambda: SO3.AngVec(th_, v_, unit=un_).A), ('angvec2r', lambda: b.angvec2r(th_, v_, unit=un_))):
            ok, r = L.noraise(f'{nm_}(beyond half turn)', f_, inp_, f'{nm_}(theta, v)', sig=f'angvec-beyond-pi:{nm_}:raises')
            if ok: L.close(f'{nm_}(beyond half turn)', np.asarray(r, float), ref_, 1e-12, 1.0, inp_, what=f'{nm_}(θ, v) is not the rotation by θ about v', sig=f'angvec-beyond-pi:{nm_}')
    return L.result()

if __name__ == '__main__':
    main_entry(_impl)
