"""C17 — functions and operators never modify their arguments; determinism (dynamic observer + static alias analysis)."""
import math, operator, copy, inspect
import numpy as np
from .common import Laws, run_subprocess, main_entry
from .. import inputs

SPEC = dict(
    aux_translators=['__alias__'],
    flag_inconsistent=True,      # a traced function whose re-execution branches differently has modified its (symbolic) arguments
    lean_modules=['SmVerif.Props.C17'],
    groups=[],
    partial=['the static part (AliasIR regenerated from the Python AST, checker proved sound in Lean) covers writes through local names; '
             'writes inside NumPy/SciPy and value-level bit-for-bit equality are the dynamic observer\'s part'],
    assumptions=['NumPy/SciPy internals do not write their inputs'],
    technique='Lean 4 soundness proof of a flow-insensitive alias/effect checker over an IR translated from the Python AST + dynamic snapshot observer',
)

def monitor(tier, seed, search=False):
    return run_subprocess('smv.props.c17', tier, seed, search)

def replay(rp):
    r = run_subprocess('smv.props.c17', 'quick', 0, True)
    hit = [v for v in r['violations'] if v['signature'] == rp.get('signature')]
    return dict(violates=bool(hit), detail=hit[:1])

MUTATORS = {'append', 'extend', 'insert', 'pop', 'clear', 'reverse', 'sort', 'remove', 'copy', 'count', 'index'}
SKIP = ('plot', 'animate', 'print', 'Rand', 'rand')

def snap(x):
    """byte-level snapshot of an argument (arrays, lists, tuples, library objects)"""
    if isinstance(x, np.ndarray): return ('arr', x.dtype.str, x.shape, x.tobytes())
    if isinstance(x, (list, tuple)): return (type(x).__name__, tuple(snap(v) for v in x))
    if hasattr(x, 'data') and isinstance(getattr(x, 'data'), list): return ('obj', type(x).__name__, tuple(snap(v) for v in x.data))
    if hasattr(x, 'real') and hasattr(x, 'dual') and not isinstance(x, (int, float, complex, np.number)):
        return ('dq', snap(x.real), snap(x.dual))
    if hasattr(x, 'plane'): return ('plane', snap(x.plane))
    if isinstance(x, (int, float, str, bool)) or x is None: return ('val', x)
    return ('other', repr(x))

def same_value(a, b):
    try:
        if isinstance(a, np.ndarray) or isinstance(b, np.ndarray):
            return np.array_equal(np.asarray(a), np.asarray(b), equal_nan=True)
        if isinstance(a, (list, tuple)) and isinstance(b, (list, tuple)):
            return len(a) == len(b) and all(same_value(x, y) for x, y in zip(a, b))
        if hasattr(a, 'data') and isinstance(getattr(a, 'data'), list): return same_value(a.data, b.data)
        if hasattr(a, 'real') and hasattr(a, 'dual') and not isinstance(a, (int, float, complex, np.number)): return same_value(a.real, b.real) and same_value(a.dual, b.dual)
        if isinstance(a, float) and isinstance(b, float) and a != a and b != b: return True
        return bool(a == b) if not hasattr(a, '__dict__') else True
    except Exception:
        return True

def _impl(tier, seed, search):
    import spatialmath.base as b
    import spatialmath as sm
    from spatialmath import SO2, SE2, SO3, SE3, Quaternion, UnitQuaternion, Twist2, Twist3
    from spatialmath.geom3d import Plucker, Plane
    from spatialmath.spatialvector import SpatialVelocity, SpatialAcceleration, SpatialForce, SpatialMomentum, SpatialInertia
    from spatialmath.DualQuaternion import DualQuaternion, UnitDualQuaternion
    from smv import targets, targets_cls
    from spatialmath.smuserlist import SMUserList
    g = inputs.rng(seed)
    reps = 2 if tier == 'quick' else 12
    L = Laws('C17', rule='every traced base/class configuration (smv.targets) with float arguments, every public attribute / zero-argument method of every class '
                         '(reflection) on single- and multi-valued receivers, every operator on documented operand pairs incl. augmented forms, point arguments in every '
                         'container form, and call chains feeding results to later calls; a case = one call with all arguments snapshotted before and after')
    def observe(law, name, f, args, sig=None):
        before = [snap(a) for a in args]
        L.count(law, key=(name, L.stats.get(law, 0))); L.sample(law, dict(callable=name))
        try:
            r1 = f(*args)
        except Exception:
            r1 = None; failed = True
        else: failed = False
        after = [snap(a) for a in args]
        for i, (x, y) in enumerate(zip(before, after)):
            if x != y:
                L.fail(sig or f'mutates:{name}', f'{name} modified its argument {i}', dict(callable=name, arg=i))
        if not failed and not any(s in name for s in ('rand', 'Rand')):
            try: r2 = f(*args)
            except Exception: return r1
            if not same_value(r1, r2):
                L.fail(f'nondeterministic:{name}', f'{name} returned different results for equal inputs', dict(callable=name))
        return r1
    # ---- 1. every traced configuration on float inputs ------------------------------------------------
    gs = targets.groups(); gs.update(targets_cls.groups())
    for grp, funcs in gs.items():
        for f in funcs:
            for _ in range(reps):
                args = [inputs.for_param(g, p) for p in f.params]
                args = [np.array(a, dtype=float) if not np.isscalar(a) else float(a) for a in args]
                r = observe('traced-config', f.name, f.call, args)
    # ---- 2. container forms of vector arguments ------------------------------------------------------------
    v3 = list(g.normal(size=3)); v4 = list(g.normal(size=4)); v6 = list(g.normal(size=6))
    R = inputs.so3(g); T = inputs.se3(g, 1)
    FORMS = lambda v: [list(v), tuple(v), np.array(v), np.array(v).reshape(1, -1), np.array(v).reshape(-1, 1)]
    calls = {'transl': b.transl, 'rpy2r': b.rpy2r, 'eul2r': b.eul2r, 'skew': b.skew, 'unitvec': b.unitvec, 'trexp': b.trexp, 'rodrigues': b.rodrigues, 'e2h': b.e2h, 'colvec': b.colvec,
             'SE3': lambda v: SE3(v), 'SO3.RPY': lambda v: SO3.RPY(v), 'SE3*v': lambda v: SE3(T) * v, 'SO3*v': lambda v: SO3(R) * v, 'Quaternion.Pure': lambda v: Quaternion.Pure(v)}
    for name, f in calls.items():
        for fv in FORMS(v3):
            observe('container-forms', f'{name}[{type(fv).__name__}{getattr(fv, "shape", "")}]', f, [fv], sig=f'mutates:{name}')
    # array arguments that a function might wrap in place: angles outside [-pi, pi), float64 arrays of several shapes
    for shp in ((5,), (2, 3), (1,)):
        for nm_, f_ in (('angdiff(a)', lambda a_: b.angdiff(a_)), ('angdiff(a, b)', lambda a_: b.angdiff(a_, a_ * 0.5)), ('getunit(a, deg)', lambda a_: b.getunit(a_, 'deg')), ('getunit(a, rad)', lambda a_: b.getunit(a_, 'rad'))):
            observe('array-argument', f'{nm_}[float64{shp}]', f_, [g.uniform(-20, 20, size=shp)], sig=f'mutates:{nm_.split("(")[0]}')
    for name, f in {'qqmul': lambda q: b.qqmul(q, q), 'q2r': b.q2r, 'UnitQuaternion': lambda q: UnitQuaternion(q), 'Quaternion': lambda q: Quaternion(q), 'conj': b.conj}.items():
        for fv in FORMS(v4)[:3]:
            observe('container-forms', f'{name}[{type(fv).__name__}]', f, [fv], sig=f'mutates:{name}')
    for name, f in {'skewa': b.skewa, 'delta2tr': b.delta2tr, 'Twist3': lambda s: Twist3(s), 'unittwist': b.unittwist, 'SE3.Exp': lambda s: SE3.Exp(s)}.items():
        for fv in FORMS(v6)[:3]:
            observe('container-forms', f'{name}[{type(fv).__name__}]', f, [fv], sig=f'mutates:{name}')
    # the string-producing helpers (file=None returns the text) on values with entries at rounding level — products of quarter turns and
    # unit translations leave 1e-17-sized translation / rotation entries, which a formatter may be tempted to clean up in place
    import io
    noisy3 = [b.trotx(math.pi / 2) @ b.transl(0, 0, 1), b.troty(math.pi / 2) @ b.transl(1, 0, 0) @ b.trotz(math.pi / 2), np.block([[inputs.so3(g), np.array([[3e-15], [1.0], [-2e-16]])], [np.zeros((1, 3)), np.ones((1, 1))]])]
    noisy2 = [b.trot2(math.pi / 2) @ b.transl2(0, 1), b.transl2(1, 0) @ b.trot2(math.pi / 2) @ b.transl2(0, 1), np.array([[0.0, -1.0, 4e-16], [1.0, 0.0, 2.0], [0, 0, 1.0]])]
    for k_, Tn in enumerate(noisy3):
        for opt_ in (dict(), dict(orient='eul'), dict(orient='angvec'), dict(unit='rad')):
            observe('display', f'trprint(T{k_},{list(opt_)})', lambda T_: b.trprint(T_, file=None, **opt_), [Tn.copy()], sig='mutates:trprint')
        observe('display', f'trprint(R{k_})', lambda R_: b.trprint(R_, file=None), [Tn[:3, :3].copy()], sig='mutates:trprint')
        Xn = SE3(Tn.copy(), check=False)
        observe('display', f'SE3.printline({k_})', lambda X_: X_.printline(file=None), [Xn], sig='mutates:SE3.printline'); observe('display', f'SE3.__str__({k_})', lambda X_: str(X_), [Xn], sig='mutates:SE3.__str__')
        observe('display', f'SE3.__repr__({k_})', lambda X_: repr(X_), [Xn], sig='mutates:SE3.__repr__'); observe('display', f'SO3.printline({k_})', lambda X_: X_.printline(file=None), [SO3(Tn[:3, :3].copy(), check=False)], sig='mutates:SO3.printline')
    for k_, Tn in enumerate(noisy2):
        observe('display', f'trprint2(T{k_})', lambda T_: b.trprint2(T_, file=None), [Tn.copy()], sig='mutates:trprint2'); observe('display', f'trprint2(T{k_},rad)', lambda T_: b.trprint2(T_, file=None, unit='rad'), [Tn.copy()], sig='mutates:trprint2')
        Xn = SE2(Tn.copy(), check=False)
        observe('display', f'SE2.printline({k_})', lambda X_: X_.printline(file=None), [Xn], sig='mutates:SE2.printline'); observe('display', f'SE2.__str__({k_})', lambda X_: str(X_), [Xn], sig='mutates:SE2.__str__')
    # the same call many times in a row gives the same result every time (no counters, caches or periodic clean-ups): products, conversions,
    # geometric queries on fixed operands, 40 repetitions each
    from spatialmath.geom3d import Plucker as _Pl
    qa1, qa2 = UnitQuaternion.RPY([-0.4, -0.4, -1.1]), UnitQuaternion.RPY([0.3, 0.7, -0.2]); Ta1, Ta2 = SE3.RPY([0.1, 0.2, 0.3]) * SE3(1, 2, 3), SE3.Rx(0.7) * SE3(-1, 0, 2)
    lpa, lpb = _Pl.PointDir([4.0, 5.0, 6.0], [1.0, 2.0, 3.0]), _Pl.PointDir([5.0, 5.0, 6.0], [2.0, 4.0, 6.0]); lsk = _Pl.PQ([0.0, 1.0, 2.0], [3.0, -1.0, 0.5])
    for nm_, f_, args_ in (('UnitQuaternion * UnitQuaternion (x40)', lambda a_, b_: (a_ * b_).vec, [qa1, qa2]), ('SE3 * SE3 (x40)', lambda a_, b_: (a_ * b_).A, [Ta1, Ta2]), ('UnitQuaternion(SO3) (x40)', lambda a_: UnitQuaternion(a_).vec, [SO3(Ta1.R)]),
                           ('UnitQuaternion.inv (x40)', lambda a_: a_.inv().vec, [qa1]), ('Plucker.distance(parallel) (x40)', lambda a_, b_: a_.distance(b_), [lpa, lpb]), ('Plucker.distance(skew) (x40)', lambda a_, b_: a_.distance(b_), [lpa, lsk]),
                           ('Plucker.closest (x40)', lambda a_: a_.closest([1.0, 2.0, 3.0]).p, [lpb]), ('Plucker.commonperp (x40)', lambda a_, b_: a_.commonperp(b_).vec, [lpa, lsk]), ('SE3.interp (x40)', lambda a_, b_: b_.interp(0.3, start=a_).A, [Ta1, Ta2]),
                           ('Twist3(SE3).exp (x40)', lambda a_: Twist3(a_).exp(0.5).A, [Ta1])):
        before_ = [snap(a_) for a_ in args_]; L.count('repeat-40', key=nm_); L.sample('repeat-40', dict(callable=nm_))
        try: outs_ = [np.array(f_(*args_), dtype=float).copy() for _ in range(40)]
        except Exception: continue
        if any(not np.array_equal(o_, outs_[0]) for o_ in outs_[1:]):
            kbad_ = next(k_ for k_, o_ in enumerate(outs_) if not np.array_equal(o_, outs_[0]))
            L.fail(f'nondeterministic:{nm_.split(" (")[0]}', f'{nm_}: repetition {kbad_} returned a different result from the first call on the same operands', dict(callable=nm_, repetition=kbad_), observed=outs_[kbad_].tolist(), required=outs_[0].tolist())
        if [snap(a_) for a_ in args_] != before_: L.fail(f'mutates:{nm_.split(" (")[0]}', f'{nm_} modified an operand', dict(callable=nm_))
    # text forms do not depend on what has been displayed before (no global state such as print options is left behind)
    Xs1 = SE3(0.0002, 0, 3); Xm1 = SE3.Rx([0.1, 0.2, 0.3]); Q1 = Quaternion([0.0002, 1, 2, 3]); R1s = SO3.Rz(0.00012)
    def texts(): return (repr(Xs1), str(Xs1), repr(Q1), str(Q1), repr(R1s), np.array2string(np.array([0.00012, 3.0])))
    t_before = texts()
    for disp_ in (lambda: repr(Xm1), lambda: str(Xm1), lambda: repr(SO3.Rx([0.1, 0.2])), lambda: repr(SE2([SE2(1, 2, 0.3), SE2()])), lambda: Xm1.printline(file=None), lambda: b.trprint(Xs1.A, file=None), lambda: str(UnitQuaternion.Rx([0.1, 0.2]))):
        L.count('display-state')
        try: disp_()
        except Exception: pass
        t_after = texts()
        if t_after != t_before:
            L.fail('nondeterministic:text-after-display', 'repr / str of an object differs after another object has been displayed (global state left behind)', dict(callable='repr/str'), observed=[a_ for a_, b_ in zip(t_after, t_before) if a_ != b_][:2], required=[b_ for a_, b_ in zip(t_after, t_before) if a_ != b_][:2])
            break
    # interpolation between fixed pairs on opposite hemispheres (negative inner product), every entry point and option: operands untouched
    for k_, (qa_, qb_) in enumerate(((UnitQuaternion.Rx(0.3), UnitQuaternion.Rx(6.0)), (UnitQuaternion.RPY([0.2, -0.4, 3.0]), UnitQuaternion.RPY([-0.3, 0.5, -2.9])), (UnitQuaternion([0.6, 0.0, 0.8, 0.0]), UnitQuaternion([-0.6, 0.1, -0.79, 0.0])))):
        for sh_ in (True, False):
            for s_ in (0.5, 0.25, [0.2, 0.7]):
                observe('interp(opposite hemispheres)', f'UQ.interp(s={s_},dest,shortest={sh_})[{k_}]', lambda a_, b_: a_.interp(s_, dest=b_, shortest=sh_), [copy.deepcopy(qa_), copy.deepcopy(qb_)], sig='mutates:UnitQuaternion.interp')
            observe('interp(opposite hemispheres)', f'slerp(shortest={sh_})[{k_}]', lambda a_, b_: b.slerp(a_, b_, 0.5, shortest=sh_), [qa_.vec.copy(), qb_.vec.copy()], sig='mutates:slerp')
        observe('interp(opposite hemispheres)', f'trinterp(R)[{k_}]', lambda a_, b_: b.trinterp(a_, b_, 0.5), [qa_.R.copy(), qb_.R.copy()], sig='mutates:trinterp')
        observe('interp(opposite hemispheres)', f'SO3.interp[{k_}]', lambda a_, b_: b_.interp(0.5, start=a_), [SO3(qa_.R), SO3(qb_.R)], sig='mutates:SO3.interp')
        observe('interp(opposite hemispheres)', f'SE3.interp[{k_}]', lambda a_, b_: b_.interp(0.5, start=a_), [SE3(b.r2t(qa_.R)), SE3(b.r2t(qb_.R))], sig='mutates:SE3.interp')
    # constructors from lists of arrays / objects: the list and its elements stay untouched
    for cname, cls, mk in (('SO3', SO3, lambda: inputs.so3(g)), ('SE3', SE3, lambda: inputs.se3(g, 1)), ('SO2', SO2, lambda: inputs.so2(g)), ('SE2', SE2, lambda: inputs.se2(g, 1)),
                           ('UnitQuaternion', UnitQuaternion, lambda: inputs.unitq(g)), ('Quaternion', Quaternion, lambda: g.normal(size=4)), ('Twist3', Twist3, lambda: g.normal(size=6)), ('Twist2', Twist2, lambda: g.normal(size=3))):
        lst = [mk(), mk()]
        observe('ctor', f'{cname}(list of arrays)', lambda l: cls(l), [lst])
        objs = [cls(mk()), cls(mk())]
        observe('ctor', f'{cname}(list of objects)', lambda l: cls(l), [objs])
        observe('ctor', f'{cname}(object)', lambda o: cls(o), [objs[0]])
        arr = mk()
        X = observe('ctor', f'{cname}(array)', lambda a: cls(a), [arr])
        # the object must not alias the caller's array in a way that later list mutation writes into it
        if X is not None:
            before = snap(arr)
            try:
                Y = cls(mk()); X[0] = Y
            except Exception: pass
            L.count('ctor-alias'); 
            if snap(arr) != before: L.fail(f'alias:{cname}(array)', f'item assignment on {cname}(array) wrote into the array passed to the constructor', dict(cls=cname))
    # constructors with check=False and later documented mutation of the object: the caller's list / arrays stay untouched
    for cname, cls, mk in (('SO3', SO3, lambda: inputs.so3(g)), ('SE3', SE3, lambda: inputs.se3(g, 1)), ('SO2', SO2, lambda: inputs.so2(g)), ('SE2', SE2, lambda: inputs.se2(g, 1)),
                           ('Quaternion', Quaternion, lambda: g.normal(size=4)), ('Twist3', Twist3, lambda: g.normal(size=6)), ('Twist2', Twist2, lambda: g.normal(size=3))):
        for kw in (dict(check=False), dict()):
            lst = [mk(), mk()]
            before = snap(lst)
            L.count('ctor-then-mutate', key=(cname, bool(kw)))
            try:
                X = cls(lst, **kw)
                X.append(cls(mk())); X.reverse(); X.insert(0, cls(mk())); X[1] = cls(mk()); X.pop()
            except Exception: pass
            if snap(lst) != before:
                L.fail(f'alias:{cname}(list)', f'list operations on {cname}(list{", check=False" if kw else ""}) changed the list passed to the constructor', dict(cls=cname, kwargs=str(kw)))
    # display: repr / str of an object must not change it or the array it was built from (values below the print threshold included)
    Tt = b.trotx(math.pi / 2) @ b.transl(1e-15, 2, 3); Rt = b.rotx(math.pi / 2)
    for nm_, arr_, mkobj in (('SE3', Tt, lambda a_: SE3(a_)), ('SO3', Rt, lambda a_: SO3(a_)), ('SE3(check=False)', Tt.copy(), lambda a_: SE3(a_, check=False)),
                             ('Twist3', np.array([1.0, 2, 3, 1e-15, 0, 1]), lambda a_: Twist3(a_)), ('Quaternion', np.array([1.0, 1e-15, 0, 0]), lambda a_: Quaternion(a_))):
        Xd = mkobj(arr_)
        for fn_, f_ in (('repr', repr), ('str', str)):
            observe('display', f'{fn_}({nm_})', lambda o_, a_: f_(o_), [Xd, arr_], sig=f'mutates:{fn_}')
    # 2-D array arguments of the homogeneous-coordinate helpers and the N x 4 quaternion constructors
    P4 = g.normal(size=(4, 5)); P4[3, :] = g.uniform(0.5, 2.0, size=5); P3 = g.normal(size=(3, 5)); Q4n = g.normal(size=(3, 4)) * 3.0
    for nm_, f_, a_ in (('h2e(4xN)', b.h2e, P4), ('e2h(3xN)', b.e2h, P3), ('homtrans(T,3xN)', lambda p_: b.homtrans(T, p_), P3), ('h2e(4)', b.h2e, P4[:, 0].copy()),
                        ('UnitQuaternion(Nx4)', lambda q_: UnitQuaternion(q_), Q4n), ('Quaternion(Nx4)', lambda q_: Quaternion(q_), Q4n.copy()),
                        ('UnitQuaternion(Nx4,norm=False)', lambda q_: UnitQuaternion(q_, norm=False, check=False), Q4n.copy()),
                        ('trnorm(T)', b.trnorm, T + 1e-9 * g.normal(size=(4, 4)) * np.r_[1, 1, 1, 0].reshape(4, 1)), ('trnorm(R)', b.trnorm, R + 1e-9 * g.normal(size=(3, 3))),
                        ('removesmall', b.removesmall, np.array([1.0, 1e-15, -3e-16, 2.0])), ('vex', b.vex, b.skew(v3) + 1e-9), ('vexa', b.vexa, b.skewa(v6) + 0.0),
                        ('tr2rpy(T)', b.tr2rpy, T.copy()), ('tr2eul(T)', b.tr2eul, T.copy()), ('tr2angvec(T)', b.tr2angvec, T.copy()), ('trlog(T)', lambda t_: b.trlog(t_, check=False), T.copy()),
                        ('trinv', b.trinv, T.copy()), ('tr2delta', b.tr2delta, T.copy()), ('trinterp(None,T,s)', lambda t_: b.trinterp(None, t_, 0.3), T.copy()), ('trinterp(T,T,s)', lambda t_: b.trinterp(np.eye(4), t_, 0.3), T.copy())):
        for rep_ in range(2):       # twice: a second call must see the same argument
            observe('array-args', nm_, f_, [a_], sig=f'mutates:{nm_.split("(")[0]}')
    # ---- 3. reflection: attributes and zero-argument methods on receivers ------------------------------------------
    def instances():
        yield 'SO2', SO2(inputs.so2(g)); yield 'SO2[3]', SO2([inputs.so2(g) for _ in range(3)])
        yield 'SE2', SE2(inputs.se2(g, 1)); yield 'SE2[3]', SE2([inputs.se2(g, 1) for _ in range(3)])
        yield 'SO3', SO3(inputs.so3(g)); yield 'SO3[3]', SO3([inputs.so3(g) for _ in range(3)])
        yield 'SE3', SE3(inputs.se3(g, 1)); yield 'SE3[3]', SE3([inputs.se3(g, 1) for _ in range(3)])
        yield 'Quaternion', Quaternion(g.normal(size=4)); yield 'Quaternion[3]', Quaternion([g.normal(size=4) for _ in range(3)])
        yield 'UnitQuaternion', UnitQuaternion(inputs.unitq(g)); yield 'UnitQuaternion[3]', UnitQuaternion([inputs.unitq(g) for _ in range(3)])
        yield 'Twist3', Twist3(np.r_[g.normal(size=3), inputs.unit_axis(g)]); yield 'Twist3[3]', Twist3([g.normal(size=6) for _ in range(3)])
        yield 'Twist2', Twist2(g.normal(size=3)); yield 'Twist2[3]', Twist2([g.normal(size=3) for _ in range(3)])
        yield 'Plucker', Plucker.PQ(g.normal(size=3), g.normal(size=3))
        yield 'Plane', Plane.PN(g.normal(size=3), g.normal(size=3))
        for c in (SpatialVelocity, SpatialAcceleration, SpatialForce, SpatialMomentum): yield c.__name__, c(g.normal(size=6))
        yield 'SpatialInertia', SpatialInertia(2.0, g.normal(size=3), np.eye(3))
        yield 'DualQuaternion', DualQuaternion(Quaternion(g.normal(size=4)), Quaternion(g.normal(size=4)))
        yield 'UnitDualQuaternion', UnitDualQuaternion(SE3(inputs.se3(g, 1)))
        # more unit dual quaternions (a real part whose floating-point norm is not exactly 1 exposes a renormalising accessor), one fixed
        yield 'UnitDualQuaternion#fixed', UnitDualQuaternion(SE3(1, 2, 3) * SE3.RPY([0.5, -0.2, 0.9]))
        for k_ in range(5): yield f'UnitDualQuaternion#{k_}', UnitDualQuaternion(SE3(inputs.se3(g, 1)))
    nattr = 0
    for iname, X in instances():
        for attr in sorted(set(dir(type(X)))):
            if attr.startswith('_') or attr in MUTATORS or any(s in attr for s in SKIP) or attr in ('data', 'Empty', 'Alloc'): continue
            static = inspect.getattr_static(type(X), attr)
            def access(obj, attr=attr, static=static):
                if isinstance(static, property): return getattr(obj, attr)
                m = getattr(obj, attr)
                if isinstance(static, (classmethod, staticmethod)): raise TypeError('constructor-like')
                return m()
            nattr += 1
            res_ = observe('receiver', f'{iname}.{attr}', access, [X], sig=f'mutates-receiver:{iname.split("[")[0].split("#")[0]}.{attr}')
            # the result must be a new object: handing back the receiver (or its backing list) lets later list operations on the result edit it
            if res_ is not None and isinstance(res_, SMUserList) and attr not in ('copy',):
                if res_ is X or res_.data is getattr(X, 'data', None):
                    L.fail(f'returns-receiver:{iname.split("[")[0].split("#")[0]}.{attr}', f'{iname}.{attr} returns its receiver (or shares its value list) instead of a new object', dict(callable=f'{iname}.{attr}'))
    # ---- 3a'. methods that take arguments: the arguments are supplied from their parameter names (another value of the receiver's class,
    #           a point, an angle, an interpolation parameter, bounds, a plane …); receiver and every argument must be unchanged
    def supply(iname, X, pname, variant):
        cname = iname.split('[')[0]
        dim = 2 if cname in ('SO2', 'SE2', 'Twist2') else 3
        if pname in ('dest', 'other', 'start', 'end', 'x2', 'l2', 'line', 'right', 'q2', 'twist', 'X', 'y'):
            Y = copy.deepcopy(dict(instances())[cname])
            if variant == 1 and cname in ('UnitQuaternion', 'Quaternion'):
                # the same rotation class on the opposite hemisphere (negative inner product with the receiver)
                q_ = -(np.asarray(X.data[0], float) + 0.05 * g.normal(size=4))
                Y = UnitQuaternion(q_ / np.linalg.norm(q_)) if cname == 'UnitQuaternion' else Quaternion(q_)
            return Y
        if pname in ('s',): return 0.5 if variant == 0 else np.array([0.0, 0.3, 1.0])
        if pname in ('theta', 'angle', 'th', 'k', 'lam', 'lamda', 'lambd', 'l'): return 0.3
        if pname in ('n', 'N'): return 2
        if pname in ('bounds',): return np.array([1.0, -1.0, -1.0, 1.0, -1.0, 1.0]) if variant == 0 else [-1.0, 1.0, -1.0, 1.0, -1.0, 1.0]
        if pname in ('x', 'p', 'point', 'v', 'P', 'pt'): return g.normal(size=dim) if variant == 0 else (g.normal(size=(dim, 4)) if variant == 1 else list(g.normal(size=dim)))
        if pname in ('plane',): return Plane.PN(g.normal(size=3), g.normal(size=3))
        if pname in ('T',): return SE3(inputs.se3(g, 1))
        raise KeyError(pname)
    nargm = 0
    for iname, X in instances():
        for attr in sorted(set(dir(type(X)))):
            if attr.startswith('_') or attr in MUTATORS or any(s_ in attr for s_ in SKIP) or attr in ('data', 'Empty', 'Alloc'): continue
            static = inspect.getattr_static(type(X), attr)
            if isinstance(static, (property, classmethod, staticmethod)) or not callable(getattr(X, attr, None)): continue
            try: sig_ = inspect.signature(getattr(X, attr))
            except (TypeError, ValueError): continue
            req = [p_ for p_ in sig_.parameters.values() if p_.default is inspect.Parameter.empty and p_.kind in (p_.POSITIONAL_ONLY, p_.POSITIONAL_OR_KEYWORD)]
            # optional parameters worth supplying too (interp(s=0, dest=None, start=None, shortest=False) …)
            opt = [p_ for p_ in sig_.parameters.values() if p_.default is not inspect.Parameter.empty and p_.name in ('s', 'dest', 'start', 'end', 'other')]
            if not req and not opt: continue
            req = req + opt
            flags = [{}] + ([{'shortest': True}] if 'shortest' in sig_.parameters else [])
            for variant in (0, 1, 2):
                try: args_ = [supply(iname, X, p_.name, variant) for p_ in req]
                except KeyError: break
                for kw_ in flags:
                    nargm += 1
                    observe('method-with-args', f'{iname}.{attr}({", ".join(p_.name for p_ in req)}{"".join(", " + k_ + "=True" for k_ in kw_)})',
                            lambda recv, *a_, attr=attr, kw_=kw_, names_=[p_.name for p_ in req]: getattr(recv, attr)(**dict(zip(names_, a_)), **kw_), [X] + args_, sig=f'mutates-argument:{iname.split("[")[0].split("#")[0]}.{attr}')
    L.stats['methods_with_arguments'] = nargm
    # ---- 3a'''. copy construction is a copy: list mutations of the copy leave the source alone (every list-capable class)
    for iname, X in instances():
        if not isinstance(X, SMUserList) or '#' in iname: continue
        cls_ = type(X)
        for mut_name, mut in (('append', lambda B_: B_.append(B_[0])), ('reverse', lambda B_: B_.reverse()), ('pop', lambda B_: B_.pop()), ('setitem', lambda B_: B_.__setitem__(0, B_[-1])), ('clear', lambda B_: B_.clear())):
            L.count('copy-then-mutate', key=(iname, mut_name)); L.sample('copy-then-mutate', dict(cls=iname, mutation=mut_name))
            try:
                A_ = copy.deepcopy(X); b0 = snap(A_); B_ = cls_(A_)
                if len(B_) != len(A_): continue        # (a copy constructor that does not copy all values is another matter)
                mut(B_)
            except Exception: continue
            if snap(A_) != b0:
                L.fail(f'copy-aliases:{iname.split("[")[0]}', f'{iname}: after B = {cls_.__name__}(A), B.{mut_name}(...) changed A', dict(cls=iname, mutation=mut_name))
    # ---- 3a''''. an empty object filled from another one (extend, +=) owns its values: later list mutations leave the source alone
    for iname, X in instances():
        if not isinstance(X, SMUserList) or '#' in iname or not hasattr(type(X), 'Empty'): continue
        for fill_name, fill in (('extend', lambda E_, Y_: (E_.extend(Y_), E_)[1]), ('+=', lambda E_, Y_: operator.iadd(E_, Y_))):
            for mut_name, mut in (('append', lambda B_, Y_: B_.append(Y_[0])), ('pop', lambda B_, Y_: B_.pop()), ('reverse', lambda B_, Y_: B_.reverse()), ('extend again', lambda B_, Y_: B_.extend(Y_)), ('+= again', lambda B_, Y_: operator.iadd(B_, Y_))):
                L.count('fill-then-mutate', key=(iname, fill_name, mut_name)); L.sample('fill-then-mutate', dict(cls=iname, fill=fill_name, mutation=mut_name))
                try:
                    Y_ = copy.deepcopy(X); b0 = snap(Y_); E_ = type(X).Empty(); E_ = fill(E_, Y_)
                    if not isinstance(E_, SMUserList) or len(E_) != len(Y_): continue       # (+= is not concatenation for every class)
                    mut(E_, Y_)
                except Exception: continue
                if snap(Y_) != b0:
                    L.fail(f'fill-aliases:{iname.split("[")[0]}', f'{iname}: after E = Empty(); E {fill_name} Y, E.{mut_name} changed Y', dict(cls=iname, fill=fill_name, mutation=mut_name))
    # ---- 3a''. histories: an object built from / derived from another value is then the target of an augmented operator; the source must be unchanged
    for cname, cls, mkm in (('SE3', SE3, lambda: inputs.se3(g, 1)), ('SO3', SO3, lambda: inputs.so3(g)), ('SE2', SE2, lambda: inputs.se2(g, 1)), ('SO2', SO2, lambda: inputs.so2(g))):
        for opn, aug in (('*=', operator.imul), ('/=', operator.itruediv)):
            Y = cls(mkm())
            def h_array():
                T_ = mkm(); X = cls(T_); b0 = T_.tobytes(); X = aug(X, Y); return b0 == T_.tobytes()
            def h_copy():
                A_ = cls(mkm()); b0 = snap(A_); B_ = cls(A_); B_ = aug(B_, Y); return b0 == snap(A_)
            def h_item():
                S_ = cls([mkm() for _ in range(3)]); b0 = snap(S_); e_ = S_[1]; e_ = aug(e_, Y); return b0 == snap(S_)
            def h_inv():
                R_ = cls(mkm()); b0 = snap(R_); Ri = R_.inv(); Ri = aug(Ri, Y); return b0 == snap(R_)
            def h_list():
                A_ = cls(mkm()); Lst = cls([A_, cls(mkm())]); b0 = snap(A_); Lst = aug(Lst, Y); return b0 == snap(A_)
            for hn, hf in (('array given to the constructor', h_array), ('object copied by the constructor', h_copy), ('sequence indexed', h_item), ('receiver of inv()', h_inv), ('object placed in a sequence', h_list)):
                L.count('history-augmented', key=(cname, opn, hn)); L.sample('history-augmented', dict(cls=cname, op=opn, source=hn))
                try: okh = hf()
                except Exception: continue
                if not okh: L.fail(f'mutates-through-history:{cname}{opn}', f'{cname}: after `X {opn} Y` on an object derived from another value ({hn}), that value has changed', dict(cls=cname, op=opn, source=hn))
    # ---- 3b. histories: an accessor's answer after documented list mutations equals the answer of a freshly built object ------
    for cname, cls, mk in (('SO3', SO3, lambda: inputs.so3(g)), ('SE3', SE3, lambda: inputs.se3(g, 1)), ('UnitQuaternion', UnitQuaternion, lambda: inputs.unitq(g)), ('SO2', SO2, lambda: inputs.so2(g)),
                           ('Twist3', Twist3, lambda: np.r_[g.normal(size=3), inputs.unit_axis(g)])):
        vals_ = [mk() for _ in range(4)]
        X = cls([vals_[0], vals_[1]])
        attrs_ = [a_ for a_ in ('R', 'A', 'rpy', 'eul', 'angvec', 'theta', 'vec', 'S', 'v', 'w', 'SO3', 'SE3', 'inv', 'det', 'norm', 'log') if hasattr(X, a_)]
        def read(obj, a_):
            m_ = getattr(obj, a_); return m_() if callable(m_) else m_
        for a_ in attrs_:
            L.count('history', key=(cname, a_))
            try:
                read(X, a_)
                X[0] = cls(vals_[2]); X.append(cls(vals_[3])); X.reverse()
                got_ = read(X, a_)
                Fresh = cls([vals_[3], vals_[1], vals_[2]])
                want_ = read(Fresh, a_)
                if not same_value(got_ if not isinstance(got_, SMUserList) else got_.data, want_ if not isinstance(want_, SMUserList) else want_.data):
                    L.fail(f'stale:{cname}.{a_}', f'{cname}.{a_} after item assignment / append / reverse differs from the same accessor on a freshly built equal object', dict(cls=cname, accessor=a_))
                X = cls([vals_[0], vals_[1]])
            except Exception:
                X = cls([vals_[0], vals_[1]])
    # ---- 4. operators: both operands unchanged; augmented operators leave the right operand unchanged ---------
    OPS = {'*': operator.mul, '/': operator.truediv, '+': operator.add, '-': operator.sub, '==': operator.eq, '!=': operator.ne, '@': operator.matmul,
           '*=': operator.imul, '/=': operator.itruediv, '+=': operator.iadd, '-=': operator.isub, '**2': lambda x, y: x ** 2, '**-1': lambda x, y: x ** -1, '^': operator.xor, '|': operator.or_}
    pairs = []
    insts = dict(instances())
    for k in ('SO2', 'SE2', 'SO3', 'SE3', 'Quaternion', 'UnitQuaternion', 'Twist2', 'Twist3'):
        pairs += [(k, k), (k + '[3]', k), (k, k + '[3]'), (k + '[3]', k + '[3]')]
    pairs += [('Quaternion', 'UnitQuaternion'), ('UnitQuaternion', 'Quaternion'), ('Twist3', 'SE3'), ('Twist2', 'SE2'), ('SE3', 'Plucker'), ('Plucker', 'Plucker'), ('SE3', 'SpatialVelocity'), ('SE3', 'SpatialForce'),
              ('SpatialVelocity', 'SpatialVelocity'), ('SpatialForce', 'SpatialForce'), ('SpatialVelocity', 'SpatialForce'), ('SpatialInertia', 'SpatialAcceleration'), ('SpatialInertia', 'SpatialVelocity'), ('SpatialInertia', 'SpatialInertia'),
              ('DualQuaternion', 'DualQuaternion'), ('UnitDualQuaternion', 'UnitDualQuaternion')]
    for l, r in pairs:
        for opn, f in OPS.items():
            A, B = copy.deepcopy(insts[l]), copy.deepcopy(insts[r])
            if opn in ('*=', '/=', '+=', '-='):
                # the left name is rebound to the result; the *object* that was the left operand and the right operand must be unchanged
                # only the right operand is required to stay unchanged (the left one is the target of the augmented assignment)
                observe('operator', f'{l} {opn} {r}', lambda b_, a=A: f(a, b_), [B], sig=f'mutates-right-operand:{l.split("[")[0]}{opn}{r.split("[")[0]}')
            else:
                observe('operator', f'{l} {opn} {r}', f, [A, B], sig=f'mutates-operand:{l.split("[")[0]}{opn}{r.split("[")[0]}')
    for k in ('SO2', 'SE2', 'SO3', 'SE3'):
        d = 2 if k in ('SO2', 'SE2') else 3
        for fv in FORMS(list(g.normal(size=d))) + [g.normal(size=(d, 4)), g.normal(size=(d, d))]:
            observe('operator', f'{k} * point[{type(fv).__name__}{getattr(fv, "shape", "")}]', operator.mul, [copy.deepcopy(insts[k]), fv], sig=f'mutates-operand:{k}*point')
        for sc in (2.0, 3):
            observe('operator', f'{k} * scalar', operator.mul, [copy.deepcopy(insts[k]), sc]); observe('operator', f'scalar * {k}', operator.mul, [sc, copy.deepcopy(insts[k])])
    # ---- 5. call chains: results fed to later calls (views returned by accessors must not become a write path) ----
    chain = [lambda T_: b.t2r(T_), lambda T_: b.transl(T_), lambda T_: b.tr2rt(T_)[0], lambda T_: SE3(T_).R, lambda T_: SE3(T_).t, lambda T_: SE3(T_).A, lambda T_: b.trnorm(T_), lambda T_: b.trinv(T_)]
    consumers = [lambda M: b.r2t(M) if M.shape == (3, 3) else b.transl(M) if M.shape == (3,) else b.trinv(M), lambda M: b.trnorm(M) if M.shape in ((3, 3), (4, 4)) else b.unitvec(M),
                 lambda M: SO3(M) if M.shape == (3, 3) else (SE3(M) if M.shape == (4, 4) else SE3(M)), lambda M: b.tr2rpy(M) if M.ndim == 2 else b.skew(M),
                 lambda M: b.trlog(M) if M.ndim == 2 else b.norm(M), lambda M: b.tr2eul(M) if M.ndim == 2 else b.e2h(M)]
    for _ in range(reps * 3):
        T0 = inputs.se3(g, 1)
        for pi, prod in enumerate(chain):
            try: mid = prod(T0)
            except Exception: continue
            for ci, cons in enumerate(consumers):
                observe('chain', f'chain[{pi}->{ci}]', lambda t0, m: cons(m), [T0, mid], sig=f'mutates-through-chain:{pi}->{ci}')
    L.stats['attributes_reflected'] = nattr
    return L.result()

if __name__ == '__main__':
    main_entry(_impl)
