"""C12 — quaternion and dual-quaternion arithmetic obeys the Hamilton algebra."""
import math
import numpy as np
from .common import Laws, run_subprocess, main_entry
from .. import inputs

SPEC = dict(
    technique='Lean 4 proof (Hamilton and dual-quaternion algebra on the regenerated model) + float monitor',
    lean_modules=['SmVerif.Props.C12', 'SmVerif.Props.Delegation', 'SmVerif.Props.DualQuat'],
    groups=['Quaternions', 'Quats', 'DualQuat'],
    partial=['exp/log of Quaternion and the dual-quaternion laws are class-level: checked by the float '
             'monitor against the Lean-stated laws (Spec.Quat), not yet by traced theorems'],
    assumptions=['float results are compared at 1e-9 relative (1e-6 for exp/log) on generated inputs only'],
)

def monitor(tier, seed, search=False):
    return run_subprocess('smv.props.c12', tier, seed, search)

def replay(rp):
    r = run_subprocess('smv.props.c12', 'quick', 0, False, extra=['--only', rp.get('signature', '')])
    hit = [v for v in r['violations'] if v['signature'] == rp.get('signature')]
    return dict(violates=bool(hit), detail=hit[:1])

def _mag(g):
    return 10.0 ** g.uniform(-6, 6)

def _impl(tier, seed, search):
    import spatialmath.base as b
    from spatialmath import Quaternion, UnitQuaternion, SE3
    from spatialmath.DualQuaternion import DualQuaternion, UnitDualQuaternion
    g = inputs.rng(seed)
    n = 400 if tier == 'quick' else 6000
    if search: n *= 3
    L = Laws('C12', rule='seeded random 4-tuples with magnitudes 1e-6..1e6 (plus unit quaternions, pure and '
                         'scalar quaternions); a case is one law instance on one input tuple; distinct = distinct (law, input index)')
    def q():
        r = g.random()
        if r < 0.2: return inputs.unitq(g)
        if r < 0.3: return np.r_[0.0, g.normal(size=3)] * _mag(g)
        return g.normal(size=4) * _mag(g)
    for i in range(n):
        a, c, d = q(), q(), q()
        sa = max(np.abs(a)); sc = max(np.abs(c)); sd = max(np.abs(d))
        inp = dict(a=a, b=c, c=d)
        L.close('assoc', b.qqmul(b.qqmul(a, c), d), b.qqmul(a, b.qqmul(c, d)), 1e-9, sa * sc * sd, inp)
        c2 = d * (sc / sd) if sd > 0 else d
        L.close('distrib-right', b.qqmul(a, c + c2), b.qqmul(a, c) + b.qqmul(a, c2), 1e-9, sa * sc, inp)
        L.close('distrib-left', b.qqmul(c + c2, a), b.qqmul(c, a) + b.qqmul(c2, a), 1e-9, sa * sc, inp)
        L.close('norm-multiplicative', b.qnorm(b.qqmul(a, c)), b.qnorm(a) * b.qnorm(c), 1e-9, sa * sc, inp)
        L.close('conj-reverses', b.conj(b.qqmul(a, c)), b.qqmul(b.conj(c), b.conj(a)), 1e-9, sa * sc, inp)
        L.close('q-conj-q', b.qqmul(a, b.conj(a)), np.r_[np.dot(a, a), 0, 0, 0], 1e-9, sa * sa, inp)
        L.close('matrix-form', b.matrix(a) @ c, b.qqmul(a, c), 1e-9, sa * sc, inp)
        L.close('inner', b.inner(a, c), float(np.dot(a, c)), 1e-9, sa * sc, inp)
        # products of sequences are element-wise Hamilton products (N x N), broadcast for 1 x N and N x 1
        if i % 5 == 1:
            Np = int(g.integers(2, 5)); pa_ = [g.normal(size=4) for _ in range(Np)]; pb_ = [g.normal(size=4) for _ in range(Np)]
            ok, r = L.noraise('mul(NxN)', lambda: ([np.asarray(x_, float) for x_ in (Quaternion(pa_) * Quaternion(pb_)).data], [np.asarray(x_, float) for x_ in (Quaternion(pa_[0]) * Quaternion(pb_)).data],
                                                   [np.asarray(x_, float) for x_ in (Quaternion(pa_) * Quaternion(pb_[0])).data]), dict(N=Np), 'Quaternion product of sequences')
            if ok and len(r[0]) == Np and len(r[1]) == Np and len(r[2]) == Np:
                for k_ in range(Np):
                    L.close('mul(NxN)', r[0][k_], b.qqmul(pa_[k_], pb_[k_]), 1e-9, 16.0, dict(N=Np, k=k_), what='element k of the product of two quaternion sequences is not the Hamilton product of the k-th elements', sig='mul:multi')
                    L.close('mul(1xN)', r[1][k_], b.qqmul(pa_[0], pb_[k_]), 1e-9, 16.0, dict(N=Np, k=k_), sig='mul:multi'); L.close('mul(Nx1)', r[2][k_], b.qqmul(pa_[k_], pb_[0]), 1e-9, 16.0, dict(N=Np, k=k_), sig='mul:multi')
            elif ok: L.check('mul(NxN):len', False, dict(N=Np), 'product of quaternion sequences has the wrong number of values', sig='mul:multi')
        # inner product of sequences: N x N gives the N element-wise values, 1 x N / N x 1 broadcast, unequal lengths raise
        if i % 5 == 0:
            Nq = int(g.integers(2, 5)); qa_ = [g.normal(size=4) for _ in range(Nq)]; qb_ = [g.normal(size=4) for _ in range(Nq)]
            ok, r = L.noraise('inner(NxN)', lambda: (np.atleast_1d(np.asarray(Quaternion(qa_).inner(Quaternion(qb_)), float)), np.atleast_1d(np.asarray(Quaternion(qa_).inner(Quaternion(qa_)), float))), dict(N=Nq), 'Quaternion.inner on sequences')
            if ok:
                L.check('inner(NxN):shape', r[0].shape == (Nq,), dict(N=Nq), f'inner of two {Nq}-valued quaternions has shape {r[0].shape}', sig='inner:multi')
                if r[0].shape == (Nq,):
                    L.close('inner(NxN)', r[0], [float(np.dot(x_, y_)) for x_, y_ in zip(qa_, qb_)], 1e-9, 16.0, dict(N=Nq), sig='inner:multi')
                    if r[1].shape == (Nq,): L.close('inner(A,A)=|A|^2', r[1], [float(np.dot(x_, x_)) for x_ in qa_], 1e-9, 16.0, dict(N=Nq), sig='inner:multi')
            L.raises('inner(NxM)', lambda: Quaternion(qa_).inner(Quaternion(qb_ + [g.normal(size=4)])), dict(N=Nq), 'inner of sequences of unequal length must raise', sig='inner:multi')
        # … through the classes too, unit quaternions on either hemisphere included (the inner product is signed)
        u1_, u2_ = inputs.unitq(g), inputs.unitq(g)
        for x1_, x2_ in ((u1_, u2_), (u1_, -u2_), (u1_, -u1_)):
            ok, r = L.noraise('UQ.inner', lambda: (UnitQuaternion(x1_, norm=False, check=False).inner(UnitQuaternion(x2_, norm=False, check=False)), Quaternion(x1_).inner(Quaternion(x2_))), dict(a=x1_, b=x2_), 'inner through the classes')
            if ok:
                L.close('UQ.inner', float(r[0]), float(np.dot(x1_, x2_)), 1e-9, 1.0, dict(a=x1_, b=x2_), what='UnitQuaternion.inner is not the Euclidean inner product of the 4-vectors', sig='inner:class')
                L.close('Q.inner', float(r[1]), float(np.dot(x1_, x2_)), 1e-9, 1.0, dict(a=x1_, b=x2_), sig='inner:class')
        w = g.normal(size=3) * _mag(g); sw = max(np.abs(w))
        L.close('dot-world', b.dot(a, w), 0.5 * b.qqmul(b.pure(w), a), 1e-9, sa * sw, dict(q=a, w=w))
        L.close('dot-body', b.dotb(a, w), 0.5 * b.qqmul(a, b.pure(w)), 1e-9, sa * sw, dict(q=a, w=w))
        # the class methods are the same bilinear maps of the stored value — also when that value is not exactly of unit length
        if i % 4 == 1:
            for nm_, qv_ in (('unit', a / sa), ('drifted', a / sa * (1 + 10.0 ** g.uniform(-8, -3))), ('general', a)):
                ok, r = L.noraise(f'UQ.dot/dotb({nm_})', lambda: (UnitQuaternion(qv_[0], qv_[1:], norm=False).dot(w), UnitQuaternion(qv_[0], qv_[1:], norm=False).dotb(w)), dict(q=qv_, w=w), 'UnitQuaternion.dot / dotb')
                if ok:
                    sq_ = max(1e-300, float(np.max(np.abs(qv_))))
                    L.close('UQ.dot', np.asarray(r[0], float), 0.5 * b.qqmul(b.pure(w), qv_), 1e-9, sq_ * sw, dict(q=qv_, w=w, kind=nm_), what='UnitQuaternion.dot is not (1/2) pure(w) q for the stored value', sig='class-dot')
                    L.close('UQ.dotb', np.asarray(r[1], float), 0.5 * b.qqmul(qv_, b.pure(w)), 1e-9, sq_ * sw, dict(q=qv_, w=w, kind=nm_), what='UnitQuaternion.dotb is not (1/2) q pure(w) for the stored value', sig='class-dot')
        # small operands (component magnitudes 1e-6, products 1e-12 .. 1e-18): the product is exact relative to |p||q| — nothing is "round-off"
        if i % 8 == 0:
            ps_ = 1e-6 * np.array([1.0, 2.0, 3.0, 4.0]) * float(g.uniform(0.5, 2)); qs_ = 1e-6 * np.array([3.01, 1.0, -1.0, 1.0]); rs_ = 1e-6 * g.normal(size=4)
            def hp_(x_, y_): return np.array([x_[0] * y_[0] - x_[1:] @ y_[1:], *(x_[0] * y_[1:] + y_[0] * x_[1:] + np.cross(x_[1:], y_[1:]))])
            for nm_, got_, want_, sc_ in (('qqmul(small)', lambda: b.qqmul(ps_, qs_), hp_(ps_, qs_), float(np.linalg.norm(ps_) * np.linalg.norm(qs_))), ('qqmul(small,small,small)', lambda: b.qqmul(b.qqmul(ps_, qs_), rs_), hp_(hp_(ps_, qs_), rs_), float(np.linalg.norm(ps_) * np.linalg.norm(qs_) * np.linalg.norm(rs_))),
                                          ('Quaternion*Quaternion(small)', lambda: (Quaternion(ps_) * Quaternion(qs_)).vec, hp_(ps_, qs_), float(np.linalg.norm(ps_) * np.linalg.norm(qs_))), ('qqmul(small, 1)', lambda: b.qqmul(ps_ * 1e-9, [1.0, 0, 0, 0]), ps_ * 1e-9, float(np.linalg.norm(ps_) * 1e-9))):
                ok, r = L.noraise(nm_, got_, dict(p=ps_, q=qs_), nm_)
                if ok: L.close(nm_, np.asarray(r, float), want_, 1e-9, sc_, dict(p=ps_, q=qs_), what='the Hamilton product of small quaternions is not exact relative to the product of their norms', sig='mul:small-operands')
        # integer powers |n| <= 6 on moderately scaled quaternions
        am = a / max(sa, 1e-300) * 10.0 ** g.uniform(-1, 1)
        k = int(g.integers(-6, 7))
        ref = np.r_[1.0, 0, 0, 0]
        for _ in range(abs(k)): ref = b.qqmul(ref, am)
        if k < 0: ref = b.conj(ref)
        L.close('power', b.qpow(am, k), ref, 1e-9, max(1.0, max(np.abs(ref))), dict(q=am, n=k))
        # class level
        ok, r = L.noraise('class-mul', lambda: (Quaternion(a) * Quaternion(c)).vec, inp, 'Quaternion * Quaternion')
        if ok: L.close('class-mul', r, b.qqmul(a, c), 1e-9, sa * sc, inp)
        ok, r = L.noraise('class-pow', lambda: (Quaternion(am) ** k).vec, dict(q=am, n=k), 'Quaternion ** n')
        if ok: L.close('class-pow', r, ref, 1e-9, max(1.0, max(np.abs(ref))), dict(q=am, n=k))
        ok, r = L.noraise('class-conj-norm', lambda: (Quaternion(a).conj().vec, Quaternion(a).norm()), inp, 'Quaternion.conj/norm')
        if ok:
            L.close('class-conj', r[0], b.conj(a), 1e-12, sa, inp)
            L.close('class-norm', r[1], math.sqrt(float(np.dot(a, a))), 1e-9, sa, inp)
        # + and - with a UnitQuaternion operand: a plain Quaternion holding the element-wise sum / difference (never renormalised)
        ua_, ub_ = inputs.unitq(g), inputs.unitq(g)
        for nm_, fa_, want_ in (('UQ+UQ', lambda: UnitQuaternion(ua_) + UnitQuaternion(ub_), ua_ + ub_), ('UQ-UQ', lambda: UnitQuaternion(ua_) - UnitQuaternion(ub_), ua_ - ub_),
                                ('UQ+Q', lambda: UnitQuaternion(ua_) + Quaternion(c), ua_ + c), ('Q+UQ', lambda: Quaternion(a) + UnitQuaternion(ub_), a + ub_),
                                ('Q-UQ', lambda: Quaternion(a) - UnitQuaternion(ub_), a - ub_), ('UQ-Q', lambda: UnitQuaternion(ua_) - Quaternion(c), ua_ - c)):
            ok, r = L.noraise(f'class-{nm_}', fa_, dict(a=ua_, b=ub_), nm_)
            if ok:
                L.check(f'class-{nm_}:type', type(r) is Quaternion, dict(a=ua_, b=ub_), f'{nm_} must be a plain Quaternion, got {type(r).__name__}', sig=f'class-addsub:type')
                L.close(f'class-{nm_}', r.vec, want_, 1e-9, max(1.0, float(np.max(np.abs(want_)))), dict(a=ua_, b=ub_), what=f'{nm_} is not the element-wise result', sig='class-addsub:value')
        # methods on multi-valued objects act value by value
        if i % 4 == 0:
            vals_ = [a / sa, c / sc, d / sd]
            Qm = Quaternion(vals_); Um = UnitQuaternion([inputs.unitq(g) for _ in range(3)])
            for nm_, fm_, fs_ in (('conj', lambda Z: Z.conj(), lambda z: z.conj()), ('norm', lambda Z: Z.norm(), lambda z: z.norm()), ('**2', lambda Z: Z ** 2, lambda z: z ** 2),
                                  ('**-1', lambda Z: Z ** -1, lambda z: z ** -1), ('unit', lambda Z: Z.unit(), lambda z: z.unit()), ('matrix', None, None)):
                if fm_ is None: continue
                for Obj, tag in ((Qm, 'Q'), (Um, 'UQ')):
                    def both():
                        rm = fm_(Obj); rs = [fs_(Obj[k_]) for k_ in range(3)]
                        gm = [np.asarray(x_, float) for x_ in (rm.data if hasattr(rm, 'A') else list(np.ravel(rm)))]
                        gs = [np.asarray(x_.data[0] if hasattr(x_, 'A') else x_, float) for x_ in rs]
                        return gm, gs
                    ok, r = L.noraise(f'multi:{tag}.{nm_}', both, dict(method=nm_), f'{tag}.{nm_} on a 3-valued object')
                    if ok:
                        L.check(f'multi:{tag}.{nm_}:len', len(r[0]) == 3, dict(method=nm_), f'{nm_} on a 3-valued object does not give 3 results', sig=f'multi:{nm_}')
                        if len(r[0]) == 3:
                            for gm_, gs_ in zip(*r): L.close(f'multi:{tag}.{nm_}', gm_, gs_, 1e-12, max(1.0, float(np.max(np.abs(gs_)))), dict(method=nm_),
                                                             what=f'{nm_} on a multi-valued quaternion differs from the single-valued result', sig=f'multi:{nm_}')
            # conj reverses the product and q conj(q) = |q|^2, per value, through the class
            ok, r = L.noraise('multi:conj-laws', lambda: ((Qm * Qm.conj()).data, [np.r_[np.dot(v_, v_), 0, 0, 0] for v_ in vals_]), {}, 'q * conj(q) on a multi-valued object')
            if ok:
                for g_, w_ in zip(*r): L.close('multi:q-conj-q', np.asarray(g_, float), w_, 1e-9, 1.0, {}, sig='multi:conj')
        # 3-vector form: unit quaternions with scalar part >= 0.1
        ua, ub = inputs.unitq(g), inputs.unitq(g)
        if ua[0] < 0: ua = -ua
        if ub[0] < 0: ub = -ub
        if ua[0] >= 0.1 and ub[0] >= 0.1:
            full = b.qqmul(ua, ub)
            L.close('vvmul', b.vvmul(ua[1:], ub[1:]), full[1:], 1e-9, 1.0, dict(a=ua, b=ub))
        # … and with one operand a small rotation (angle log-uniform 1e-8 .. 1 rad), in either position
        ang_ = 10.0 ** g.uniform(-8, 0); us = np.r_[math.cos(ang_ / 2), math.sin(ang_ / 2) * inputs.unit_axis(g)]
        if ub[0] >= 0.1:
            for a_, b_ in ((us, ub), (ub, us), (us, us)):
                L.close('vvmul(small)', b.vvmul(a_[1:], b_[1:]), b.qqmul(a_, b_)[1:], 1e-9, 1.0, dict(a=a_, b=b_, small_angle=ang_), sig='vvmul')
        # exp / log (1e-6): exp(log q) = q for non-zero vector part; log(exp q) = q for |v| in (0, pi)
        am2 = am.copy()
        if np.linalg.norm(am2[1:]) > 1e-3 * np.linalg.norm(am2):
            ok, r = L.noraise('exp-log', lambda: Quaternion(am2).log().exp().vec, dict(q=am2), 'exp(log(q))')
            if ok: L.close('exp-log', r, am2, 1e-6, max(np.abs(am2)), dict(q=am2))
        v = inputs.unit_axis(g) * float(g.uniform(1e-3, math.pi - 1e-3)); s = float(g.uniform(-2, 2))
        qe = np.r_[s, v]
        ok, r = L.noraise('log-exp', lambda: Quaternion(qe).exp().log().vec, dict(q=qe), 'log(exp(q))')
        if ok: L.close('log-exp', r, qe, 1e-6, max(1.0, max(np.abs(qe))), dict(q=qe))
        # exp and log at the edges: a vector part tiny beside a negative scalar part (log angle next to pi), scalar parts of 1e-6 .. 1e-5 and
        # pure quaternions with |v| next to pi (exp lands next to -1): exp(log q) = q and log(exp q) = q to 1e-6 relative
        if i % 6 == 0:
            vt_ = inputs.unit_axis(g) * 10.0 ** g.uniform(-7, -5.5)
            for nm_, qx_ in (('negative scalar, tiny vector', np.r_[-1.0, vt_]), ('negative scalar (large), small vector', np.r_[-3e5, 0.5, -0.25, 1.0]), ('[-1,1e-6,0,0]', np.array([-1.0, 1e-6, 0.0, 0.0]))):
                ok, r = L.noraise(f'exp-log({nm_})', lambda: Quaternion(qx_).log().exp().vec, dict(q=qx_), 'exp(log(q))')
                if ok: L.close('exp-log(edge)', np.asarray(r, float), qx_, 1e-6, float(np.max(np.abs(qx_))), dict(q=qx_, kind=nm_), what='exp(log(q)) differs from q for a quaternion with negative scalar part and a comparatively tiny vector part', sig='exp-log:edge')
            for nm_, qy_ in (('small scalar part', np.r_[float(g.choice([-1, 1])) * 10.0 ** g.uniform(-6, -5), inputs.unit_axis(g) * float(g.uniform(0.3, 2.5))]), ('|v| next to pi', np.r_[0.2, inputs.unit_axis(g) * (math.pi - 10.0 ** g.uniform(-7, -5.5))]),
                             ('scalar 3e-6', np.r_[3e-6, 0.4, -0.3, 0.2])):
                ok, r = L.noraise(f'log-exp({nm_})', lambda: (Quaternion(qy_).exp().log().vec, type(Quaternion(qy_).exp()).__name__, np.asarray(Quaternion(qy_).exp().vec, float)), dict(q=qy_), 'log(exp(q))')
                if ok:
                    L.close('log-exp(edge)', np.asarray(r[0], float), qy_, 1e-6, max(1.0, float(np.max(np.abs(qy_)))), dict(q=qy_, kind=nm_), what='log(exp(q)) differs from q', sig='log-exp:edge')
                    nv_ = float(np.linalg.norm(qy_[1:])); wantexp_ = math.exp(qy_[0]) * np.r_[math.cos(nv_), qy_[1:] / nv_ * math.sin(nv_)]
                    L.close('exp(edge)', r[2], wantexp_, 1e-6, 1e-3 + float(np.max(np.abs(wantexp_))) * 1e-3, dict(q=qy_, kind=nm_), what='exp(q) is not e^s (cos|v|, v/|v| sin|v|) to 1e-9', sig='log-exp:edge')
        # the class methods on unit-quaternion objects of either hemisphere: exp(log(q)) = q (not -q), log(exp(p)) = p for pure p with |v| up to pi
        if i % 6 == 3:
            qu_ = np.asarray(inputs.unitq(g), float); qu_ = qu_ if abs(qu_[0]) < 0.95 else np.r_[0.5, inputs.unit_axis(g) * math.sqrt(0.75)]
            for sg_ in (1.0, -1.0):
                qs_ = qu_ * sg_ * np.sign(qu_[0] if qu_[0] != 0 else 1.0)
                ok, r = L.noraise('UQ.log.exp', lambda: np.asarray(UnitQuaternion(qs_, norm=False).log().exp().vec, float), dict(q=qs_), 'UnitQuaternion.log().exp()')
                if ok: L.close('UQ: exp(log q) = q', r, qs_, 1e-6, 1.0, dict(q=qs_), what='exp(log(q)) is not q for a UnitQuaternion object' + (' with negative scalar part' if qs_[0] < 0 else ''), sig='UQ.log')
            vp_ = inputs.unit_axis(g) * float(g.uniform(0.1, math.pi - 0.05))
            ok, r = L.noraise('log(exp(pure))', lambda: np.asarray(Quaternion(np.r_[0.0, vp_]).exp().log().vec, float), dict(v=vp_), 'Quaternion.Pure(v).exp().log()')
            if ok: L.close('log(exp(pure v)) = v', r, np.r_[0.0, vp_], 1e-6, max(1.0, float(np.linalg.norm(vp_))), dict(v=vp_), what='log(exp(p)) is not p for a pure quaternion with |v| < pi', sig='UQ.log')
            qg_ = np.r_[float(g.uniform(-2, 2)), inputs.unit_axis(g) * float(g.uniform(0.3, 1.2))]
            ok, r = L.noraise('log(exp(q)) general', lambda: np.asarray(Quaternion(qg_).exp().log().vec, float), dict(q=qg_), 'log(exp(q))')
            if ok: L.close('log(exp(q)) (|v| 0.3 .. 1.2)', r, qg_, 1e-6, max(1.0, float(np.max(np.abs(qg_)))), dict(q=qg_), what='log(exp(q)) differs from q for a vector part of moderate length', sig='log-exp:moderate')
        # dual quaternions
        if i % 4 == 0:
            A = DualQuaternion(Quaternion(a / sa), Quaternion(c / sc)); B = DualQuaternion(Quaternion(d / sd), Quaternion(a / sa))
            C = DualQuaternion(Quaternion(c / sc), Quaternion(d / sd))
            ok, r = L.noraise('dq-assoc', lambda: (((A * B) * C).vec, (A * (B * C)).vec), inp, 'DualQuaternion product')
            if ok: L.close('dq-assoc', r[0], r[1], 1e-9, 8.0, inp)
            ok, r = L.noraise('dq-matrix', lambda: (A.matrix() @ B.vec, (A * B).vec), inp, 'DualQuaternion.matrix')
            if ok: L.close('dq-matrix', r[0], r[1], 1e-9, 8.0, inp)
            # the matrix form when the real part is stored with integer dtype (built from Python ints) and the dual part is not integral
            Ai_ = DualQuaternion([1, 2, 3, 4, 0.5, 0.25, 1.5, -2]) if i % 8 == 0 else DualQuaternion(Quaternion([1, 2, 3, 4]), Quaternion(c / sc))
            ok, r = L.noraise('dq-matrix(int real part)', lambda: (Ai_.matrix() @ B.vec, (Ai_ * B).vec), inp, 'DualQuaternion.matrix with an integer-stored real part')
            if ok: L.close('dq-matrix(int real part)', r[0], r[1], 1e-9, 30.0, inp, what='A.matrix() @ B.vec differs from (A*B).vec when the real part of A is stored with integer dtype', sig='dq-matrix:int')
            # sums and differences are component-wise on the 8-vector; the product distributes over them on either side
            ok, r = L.noraise('dq-add', lambda: ((A + B).vec, (B + A).vec, (A - B).vec, (A * (B + C)).vec, (A * B).vec + (A * C).vec, ((B + C) * A).vec, (B * A).vec + (C * A).vec, ((A - B) + B).vec), inp, 'DualQuaternion sum / difference')
            if ok:
                L.close('dq-add', r[0], A.vec + B.vec, 1e-12, 8.0, inp, what='the sum of two dual quaternions is not the component-wise sum', sig='dq-add'); L.close('dq-add:commutes', r[1], r[0], 1e-12, 8.0, inp, sig='dq-add')
                L.close('dq-sub', r[2], A.vec - B.vec, 1e-12, 8.0, inp, sig='dq-add'); L.close('dq-distributes(left)', r[3], r[4], 1e-9, 16.0, inp, sig='dq-add'); L.close('dq-distributes(right)', r[5], r[6], 1e-9, 16.0, inp, sig='dq-add')
                L.close('dq-(A-B)+B', r[7], A.vec, 1e-12, 8.0, inp, sig='dq-add')
            ok, r = L.noraise('dq-conj', lambda: (A.conj().vec, np.r_[b.conj(A.real.vec), b.conj(A.dual.vec)]), inp, 'DualQuaternion.conj')
            if ok: L.close('dq-conj', r[0], r[1], 1e-12, 2.0, inp)
            # unit dual quaternions of rigid motions with rotations up to a half turn and beyond (products past 180 deg)
            Xa = SE3(inputs.se3(g, 2)) * SE3.Rx(float(g.uniform(2.0, 3.1))); Xb = SE3(inputs.se3(g, 2)) * SE3.Rx(float(g.uniform(1.5, 3.1)))
            def udq_prod():
                da, db = UnitDualQuaternion(Xa), UnitDualQuaternion(Xb)
                pr = da * db
                return pr.vec, da.matrix() @ db.vec, pr.SE3().A, (Xa * Xb).A, ((da * db) * da).vec, (da * (db * da)).vec
            ok, r = L.noraise('udq-product', udq_prod, dict(X=Xa.A, Y=Xb.A), 'UnitDualQuaternion * UnitDualQuaternion')
            if ok:
                L.close('udq-matrix', r[0], r[1], 1e-9, 8.0, dict(X=Xa.A, Y=Xb.A), what='(A*B).vec differs from A.matrix() @ B.vec for unit dual quaternions', sig='udq-product')
                L.close('udq-SE3', r[2], r[3], 1e-6, max(1.0, float(np.max(np.abs(r[3])))), dict(X=Xa.A, Y=Xb.A), what='(UDQ(X)*UDQ(Y)).SE3() differs from X*Y', sig='udq-product')
                sgn = 1.0 if np.dot(r[4], r[5]) >= 0 else -1.0
                L.close('udq-assoc', r[4], sgn * r[5], 1e-9, 30.0, dict(X=Xa.A, Y=Xb.A), sig='udq-product')
            # mixed products: a unit dual quaternion times a general one (real part of any norm), either order — the matrix form and associativity
            Gd = DualQuaternion(Quaternion(a), Quaternion(c)); Ud = UnitDualQuaternion(Xa)
            def mixed():
                return ((Ud * Gd).vec, Ud.matrix() @ Gd.vec, (Gd * Ud).vec, Gd.matrix() @ Ud.vec, ((Ud * Gd) * Ud).vec, (Ud * (Gd * Ud)).vec)
            ok, r = L.noraise('udq*dq', mixed, dict(inp, X=Xa.A), 'UnitDualQuaternion * DualQuaternion')
            if ok:
                sc_ = max(1.0, float(np.max(np.abs(r[1]))), float(np.max(np.abs(r[3]))))
                L.close('udq*dq:matrix', r[0], r[1], 1e-9, sc_, dict(inp, X=Xa.A), what='(U*G).vec differs from U.matrix() @ G.vec for a unit dual quaternion U and a general G', sig='udq*dq')
                L.close('dq*udq:matrix', r[2], r[3], 1e-9, sc_, dict(inp, X=Xa.A), sig='udq*dq')
                L.close('udq*dq:assoc', r[4], r[5], 1e-9, max(1.0, float(np.max(np.abs(r[5])))), dict(inp, X=Xa.A), sig='udq*dq')
            # conjugate of a unit dual quaternion (with translation): component-wise conjugates, A conj(A) = (1, 0), conj reverses products
            def udq_conj():
                return (Ud.conj().vec, np.r_[b.conj(Ud.real.vec), b.conj(Ud.dual.vec)], (Ud * Ud.conj()).vec, (Ud * Gd).conj().vec, (Gd.conj() * Ud.conj()).vec)
            ok, r = L.noraise('udq-conj', udq_conj, dict(X=Xa.A), 'UnitDualQuaternion.conj')
            if ok:
                L.close('udq-conj', r[0], r[1], 1e-12, max(1.0, float(np.max(np.abs(r[1])))), dict(X=Xa.A), what='conj of a unit dual quaternion is not (conj real, conj dual)', sig='udq-conj')
                L.close('udq*conj', r[2], np.r_[1.0, 0, 0, 0, 0, 0, 0, 0], 1e-9, max(1.0, float(np.max(np.abs(Ud.vec)))) ** 2, dict(X=Xa.A), what='A * conj(A) is not (1, 0) for a unit dual quaternion', sig='udq-conj')
                L.close('conj(U*G)', r[3], r[4], 1e-9, max(1.0, float(np.max(np.abs(r[4])))), dict(X=Xa.A), sig='udq-conj')
            T = inputs.se3(g, 3)
            def udq_norm():
                d_ = UnitDualQuaternion(SE3(T, check=False))
                return d_.norm()
            ok, r = L.noraise('udq-norm', udq_norm, dict(T=T), 'norm of a unit dual quaternion built from a rigid motion must always be defined',
                              sig='udq-norm:raises')
            if ok:
                L.close('udq-norm', [float(r[0]), float(r[1])], [1.0, 0.0], 1e-6, 1.0, dict(T=T))
    return L.result()

if __name__ == '__main__':
    main_entry(_impl)
