"""C11 — interpolation: endpoints, validity, linear translation, constant-rate rotation (float monitor)."""
import math
import numpy as np
from .common import Laws, run_subprocess, main_entry
from .. import inputs
from . import geom

SPEC = dict(
    technique='Lean 4 proof (slerp end points, range, value, unit norm; planar interpolation: angle and translation linear in s, members, end points; regenerated model) + float monitor of the 3-D matrix/class interpolators',
    lean_modules=['SmVerif.Props.C11', 'SmVerif.Props.Interp2'],
    groups=['Quaternions', 'Transforms3d', 'Transforms2d'],
    expected_untranslatable=('trinterp_T', 'trinterp_T_nostart'),
    partial=['slerp laws and the planar interpolators are proved on the traced functions; trinterp = q2r∘slerp∘r2q composes them with C04 (r2q) and is explored as a whole; '
             'UnitQuaternion.interp (uses float()) is explored'],
    assumptions=['agreement 1e-6 on generated inputs only'],
)

def monitor(tier, seed, search=False):
    return run_subprocess('smv.props.c11', tier, seed, search)

def replay(rp):
    r = run_subprocess('smv.props.c11', 'quick', 0, True)
    hit = [v for v in r['violations'] if v['signature'] == rp.get('signature')]
    return dict(violates=bool(hit), detail=hit[:1])

def axis_angle(R):
    """robust axis-angle of a rotation matrix (numpy only)"""
    w = np.array([R[2, 1] - R[1, 2], R[0, 2] - R[2, 0], R[1, 0] - R[0, 1]]) / 2
    s = np.linalg.norm(w); c = (np.trace(R) - 1) / 2
    th = math.atan2(s, c)
    if s > 1e-8: return w / s, th
    if c > 0: return np.zeros(3), th
    B = (R + R.T) / 2
    k = int(np.argmax(np.diag(B)))
    a = B[:, k] + np.eye(3)[:, k]; a = a / np.linalg.norm(a)
    return a, th

def _impl(tier, seed, search):
    import spatialmath.base as b
    from spatialmath import SO2, SE2, SO3, SE3, UnitQuaternion
    g = inputs.rng(seed)
    n = 150 if tier == 'quick' else 3000
    if search: n *= 3
    TOL = 1e-6
    L = Laws('C11', rule='pairs of poses with relative rotation angle 1e-12..pi-1e-6, s in [0,1] incl. 0, 1 and values within 1e-12 of them, s slightly '
                         'outside, scalar and vector s, with/without explicit start, shortest on/off, SO(2)/SE(2)/SO(3)/SE(3)/unit quaternion; a case = one check')
    def rel_angle(g):
        r = g.random()
        if r < 0.3: return 10.0 ** g.uniform(-12, -1)
        if r < 0.5: return math.pi - 10.0 ** g.uniform(-6, -1)
        return float(g.uniform(0, math.pi - 1e-6))
    def svalue(g):
        r = g.random()
        if r < 0.15: return 0.0
        if r < 0.3: return 1.0
        if r < 0.4: return 10.0 ** g.uniform(-12, -3)
        if r < 0.5: return 1.0 - 10.0 ** g.uniform(-12, -3)
        return float(g.uniform(0, 1))
    def either_arc(law, Rs, R0, ax, th, s, inp, what=None):
        """matrix interpolation may take either arc between the end points ('along the arc taken'): the rotation must be
        about the fixed axis through s*theta or through s*(theta - 2 pi)"""
        short = R0 @ inputs.rodrigues(ax, s * th); long_ = R0 @ inputs.rodrigues(ax, s * (th - 2 * math.pi))
        d1 = float(np.max(np.abs(np.asarray(Rs, float) - short))); d2 = float(np.max(np.abs(np.asarray(Rs, float) - long_)))
        L.close(law, Rs, short if d1 <= d2 else long_, TOL, 1.0, inp, what=what)
    for i in range(n):
        R0 = inputs.so3(g); ax = inputs.unit_axis(g); th = rel_angle(g)
        R1 = R0 @ inputs.rodrigues(ax, th)
        t0, t1 = inputs.translation(g, -3, 3), inputs.translation(g, -3, 3)
        T0 = np.eye(4); T0[:3, :3] = R0; T0[:3, 3] = t0
        T1 = np.eye(4); T1[:3, :3] = R1; T1[:3, 3] = t1
        s = svalue(g)
        inp = dict(T0=T0, T1=T1, s=s, rel_angle=th, axis=ax)
        tsc = max(1.0, float(np.linalg.norm(t0)), float(np.linalg.norm(t1)))
        # ---- trinterp (4x4) --------------------------------------------------------------------
        ok, Ts = L.noraise('trinterp', lambda: b.trinterp(T0, T1, s), inp, 'trinterp(T0, T1, s)')
        T01 = Ts if ok else None
        if ok:
            if isinstance(Ts, Exception) or Ts is None:
                L.check('trinterp', False, inp, 'trinterp returned an exception object / None instead of a matrix', sig='trinterp:returns-exception')
            else:
                r = geom.se_residual(Ts); L.check('trinterp:valid', r <= 1e-9, inp, f'trinterp result is not a rigid motion (residual {r:.3g})')
                L.close('trinterp:translation-linear', Ts[:3, 3], t0 * (1 - s) + s * t1, TOL, tsc, inp)
                either_arc('trinterp:constant-rate', Ts[:3, :3], R0, ax, th, s, inp, what='rotation is not about the fixed axis of R0ᵀR1 through an angle proportional to s')
                if s == 0.0: L.close('trinterp:s=0', Ts, T0, TOL, tsc, inp)
                if s == 1.0: L.close('trinterp:s=1', Ts, T1, TOL, tsc, inp)
        # the same end array used for a second interpolation from another start, and after being edited in place: each call
        # depends on its own arguments only
        if i % 4 == 0:
            R0b = inputs.so3(g); T0b = np.eye(4); T0b[:3, :3] = R0b; T0b[:3, 3] = t0[::-1]; Tend = T1.copy()
            def seq_():
                a_ = b.trinterp(T0, Tend, s); b_ = b.trinterp(T0b, Tend, s); Xe = SE3(Tend, check=False); c_ = Xe.interp(s, start=SE3(T0, check=False)).A; d_ = Xe.interp(s, start=SE3(T0b, check=False)).A
                Tend[:3, :3] = R0b; e_ = b.trinterp(T0, Tend, s)
                return a_, b_, c_, d_, e_, b.trinterp(T0b.copy(), T1.copy(), s), b.trinterp(T0.copy(), np.block([[R0b, t1.reshape(3, 1)], [np.zeros((1, 3)), np.ones((1, 1))]]), s)
            ok, r = L.noraise('trinterp(sequence of calls)', seq_, inp, 'several trinterp calls sharing the end array')
            if ok and all(isinstance(x_, np.ndarray) for x_ in r):
                L.close('trinterp(second start)', r[1], r[5], 1e-12, tsc, inp, what='trinterp(B, end, s) after trinterp(A, end, s) with the same end array differs from a fresh call', sig='trinterp:call-history')
                L.close('SE3.interp(second start)', r[3], r[5], 1e-9, tsc, inp, what='X.interp(s, start=B) after X.interp(s, start=A) differs from a fresh call', sig='trinterp:call-history'); L.close('SE3.interp(first start)', r[2], r[0], 1e-9, tsc, inp, sig='trinterp:call-history')
                L.close('trinterp(end edited in place)', r[4], r[6], 1e-12, tsc, inp, what='trinterp after the end array was edited in place differs from a fresh call on the new values', sig='trinterp:call-history')
        # start omitted = identity start
        ok, Ts = L.noraise('trinterp-nostart', lambda: b.trinterp(None, T1, s), inp, 'trinterp(None, T1, s)')
        if ok and isinstance(Ts, np.ndarray):
            a1, th1 = axis_angle(R1)
            L.close('trinterp-nostart:translation', Ts[:3, 3], s * t1, TOL, tsc, inp)
            if 1e-6 < th1 < math.pi - 1e-6: either_arc('trinterp-nostart:rotation', Ts[:3, :3], np.eye(3), a1, th1, s, inp)
        # 3x3 matrices
        ok, Rs = L.noraise('trinterp-R', lambda: b.trinterp(R0, R1, s), dict(R0=R0, R1=R1, s=s), 'trinterp(R0, R1, s) on SO(3) matrices', sig='trinterp-R:raises')
        if ok:
            if not isinstance(Rs, np.ndarray): L.check('trinterp-R', False, dict(R0=R0, R1=R1, s=s), 'trinterp on 3x3 matrices did not return a matrix', sig='trinterp-R:not-matrix')
            else: either_arc('trinterp-R:constant-rate', Rs, R0, ax, th, s, dict(R0=R0, R1=R1, s=s))
            # the 3x3 and the 4x4 matrix interpolators (both request the shorter arc) give the same rotation
            if isinstance(Rs, np.ndarray) and isinstance(T01, np.ndarray) and th < math.pi - 1e-3:
                L.close('trinterp-R=trinterp-T', Rs, T01[:3, :3], TOL, 1.0, dict(R0=R0, R1=R1, s=s, rel_angle=th),
                        what='trinterp on the 3x3 rotation matrices and on the 4x4 matrices holding them give different rotations', sig='trinterp-R=trinterp-T')
        # out-of-range s rejected
        for sbad in (-10.0 ** g.uniform(-9, 0), 1 + 10.0 ** g.uniform(-9, 0), -10.0 ** g.uniform(-15, -9), 1 + 10.0 ** g.uniform(-15, -9),
                     float(np.nextafter(1.0, 2.0)), float(np.nextafter(0.0, -1.0)), -1e-300):
            L.raises('trinterp:range', lambda: b.trinterp(T0, T1, sbad), dict(s=sbad), 'trinterp must reject s outside [0,1]')
            L.raises('slerp:range', lambda: b.slerp(inputs.unitq(g), inputs.unitq(g), sbad), dict(s=sbad), 'slerp must reject s outside [0,1]')
            L.raises('UQ.interp:range', lambda: UnitQuaternion(inputs.unitq(g)).interp(sbad, UnitQuaternion(inputs.unitq(g))), dict(s=sbad), 'UnitQuaternion.interp must reject s outside [0,1]')
            L.raises('UQ.interp(no dest):range', lambda: UnitQuaternion(inputs.unitq(g)).interp(sbad), dict(s=sbad), 'UnitQuaternion.interp(s) without dest must reject s outside [0,1]')
            L.raises('UQ.interp(shortest):range', lambda: UnitQuaternion(inputs.unitq(g)).interp(sbad, UnitQuaternion(inputs.unitq(g)), shortest=True), dict(s=sbad), 'UnitQuaternion.interp(shortest) must reject s outside [0,1]')
            L.raises('SO3.interp:range', lambda: SO3(T1[:3, :3], check=False).interp(sbad, start=SO3(T0[:3, :3], check=False)), dict(s=sbad), 'SO3.interp must reject s outside [0,1]')
            L.raises('SE3.interp(no start):range', lambda: SE3(T1, check=False).interp(sbad), dict(s=sbad), 'SE3.interp(s) must reject s outside [0,1]')
            L.raises('trinterp(None,T,s):range', lambda: b.trinterp(None, T1, sbad), dict(s=sbad), 'trinterp(None, T, s) must reject s outside [0,1]')
            L.raises('SE3.interp:range', lambda: SE3(T1, check=False).interp(sbad, start=SE3(T0, check=False)), dict(s=sbad), 'SE3.interp must reject s outside [0,1]')
        # ---- quaternion slerp ---------------------------------------------------------------------
        q0 = np.r_[math.cos(0.3), math.sin(0.3) * inputs.unit_axis(g)]
        half = th / 2
        dq = np.r_[math.cos(half), math.sin(half) * ax]
        def qm(a, c):
            return np.r_[a[0] * c[0] - a[1:] @ c[1:], a[0] * c[1:] + c[0] * a[1:] + np.cross(a[1:], c[1:])]
        q1 = qm(q0, dq)          # dot(q0,q1) = cos(th/2) >= 0: the arc taken is the short one
        for shortest in (False, True):
            qi = dict(q0=q0, q1=q1, s=s, shortest=shortest, rel_angle=th)
            ok, qs = L.noraise('slerp', lambda: b.slerp(q0, q1, s, shortest=shortest), qi, 'slerp')
            if ok:
                L.close('slerp:unit', float(np.linalg.norm(qs)), 1.0, 1e-9, 1.0, qi)
                want = qm(q0, np.r_[math.cos(s * half), math.sin(s * half) * ax])
                if np.dot(want, qs) < 0: want = -want
                L.close('slerp:constant-rate', qs, want, TOL, 1.0, qi)
                if s == 0.0: L.close('slerp:s=0', qs, q0, 1e-12, 1.0, qi)
                if s == 1.0: L.close('slerp:s=1', qs, q1, 1e-12, 1.0, qi)
            ok, qs2 = L.noraise('UQ.interp', lambda: UnitQuaternion(q0).interp(s, UnitQuaternion(q1), shortest=shortest).vec, qi, 'UnitQuaternion.interp')
            if ok and qs is not None:
                w2 = qs if np.dot(qs, qs2) >= 0 else -qs
                L.close('UQ.interp=slerp', qs2, w2, TOL, 1.0, qi)
        # moderate relative rotations (0.05 .. 0.4 rad), s away from 0, 1/2 and 1: the class method and slerp agree, and the turn is proportional to s
        thm = float(g.uniform(0.05, 0.4)); sm = float(g.choice([0.2, 0.3, 0.75])); axm = inputs.unit_axis(g)
        qm1 = qm(q0, np.r_[math.cos(thm / 2), math.sin(thm / 2) * axm]); wantm = qm(q0, np.r_[math.cos(sm * thm / 2), math.sin(sm * thm / 2) * axm])
        for shortest in (False, True):
            ok, r = L.noraise('UQ.interp(moderate)', lambda: (UnitQuaternion(q0).interp(sm, UnitQuaternion(qm1), shortest=shortest).vec, b.slerp(q0, qm1, sm, shortest=shortest)), dict(q0=q0, q1=qm1, s=sm, rel_angle=thm), 'UnitQuaternion.interp at a moderate relative rotation')
            if ok:
                for nm_, got_ in (('UQ.interp', r[0]), ('slerp', r[1])):
                    gq = got_ if np.dot(got_, wantm) >= 0 else -np.asarray(got_)
                    L.close(f'{nm_}:constant-rate(moderate)', gq, wantm, 1e-7, 1.0, dict(q0=q0, q1=qm1, s=sm, rel_angle=thm), what=f'{nm_} does not turn through s times the relative angle', sig=f'{nm_}:constant-rate')
        # nearly coincident rotations given by quaternions of opposite sign (inner product next to -1), longer arc: still a unit quaternion /
        # rotation matrix for every s; several poses with one scalar s: one result per pose
        qa_ = np.asarray(inputs.unitq(g), float); dq_ = np.r_[math.cos(10.0 ** g.uniform(-7, -4) / 2), math.sin(10.0 ** g.uniform(-7, -4) / 2) * inputs.unit_axis(g)]; qb_ = -qm(qa_, dq_ / np.linalg.norm(dq_)); sa_ = float(g.choice([0.3, 0.5, 0.8]))
        ok, r = L.noraise('slerp(opposite signs, long arc)', lambda: (np.asarray(b.slerp(qa_, qb_, sa_), float), np.asarray(UnitQuaternion(qa_).interp(sa_, UnitQuaternion(qb_, norm=False)).vec, float)), dict(q0=qa_, q1=qb_, s=sa_), 'slerp between nearly antipodal quaternions')
        if ok:
            L.close('slerp(opposite signs):unit', float(np.linalg.norm(r[0])), 1.0, 1e-9, 1.0, dict(q0=qa_, q1=qb_, s=sa_), what='slerp between two quaternions with inner product next to -1 (longer arc) is not a unit quaternion', sig='slerp:valid')
            L.check('slerp(opposite signs):rotation', geom.so_residual(b.q2r(r[0])) <= 1e-6, dict(q0=qa_, q1=qb_, s=sa_), 'q2r of the interpolated quaternion is not a rotation matrix', sig='slerp:valid')
            L.close('UQ.interp(opposite signs):unit', float(np.linalg.norm(r[1])), 1.0, 1e-9, 1.0, dict(q0=qa_, q1=qb_, s=sa_), sig='slerp:valid')
        if i % 4 == 2:
            for nm_, Xm_ in (('SE3', SE3([T0, T1], check=False)), ('SO3', SO3([R0, R1], check=False)), ('SE2', SE2([inputs.se2(g, 2), inputs.se2(g, 2), inputs.se2(g, 2)], check=False))):
                for kw_ in (dict(), dict(start=Xm_[0])):
                    ok, r = L.noraise(f'{nm_}.interp(scalar s) on a sequence', lambda: Xm_.interp(0.4, **kw_), dict(cls=nm_, start=bool(kw_)), f'{nm_}.interp(s) on several poses')
                    if ok:
                        L.check(f'{nm_}.interp(scalar s):len', len(r) == len(Xm_), dict(cls=nm_, start=bool(kw_)), f'{nm_}.interp(scalar s) on {len(Xm_)} poses gives {len(r)} result(s)', sig='interp(sequence):len')
                        if len(r) == len(Xm_):
                            for k_ in range(len(Xm_)): L.close(f'{nm_}.interp(scalar s)[k]', np.asarray(r.data[k_], float), np.asarray(Xm_[k_].interp(0.4, **kw_).A, float), 1e-9, max(1.0, geom.tmag(np.asarray(r.data[k_], float))), dict(cls=nm_, k=k_), sig='interp(sequence):len')
        # the one-quaternion form (from the identity) with shortest=True for a quaternion with negative scalar part: the short way round,
        # the same rotation as the two-quaternion form from the identity, slerp and the matrix interpolators give
        qneg_ = np.asarray(inputs.unitq(g), float); qneg_ = qneg_ if qneg_[0] < -0.05 else np.r_[-abs(qneg_[0]) - 0.05, qneg_[1:]]; qneg_ = qneg_ / np.linalg.norm(qneg_); s1_ = float(g.choice([0.25, 0.6, 0.5]))
        ok, r = L.noraise('UQ.interp(s, shortest) from the identity', lambda: (UnitQuaternion(qneg_, norm=False).interp(s1_, shortest=True).R, UnitQuaternion().interp(s1_, dest=UnitQuaternion(qneg_, norm=False), shortest=True).R,
                                                                                 b.q2r(b.slerp([1.0, 0, 0, 0], qneg_, s1_, shortest=True)), b.trinterp(None, b.q2r(qneg_), s1_)), dict(q=qneg_, s=s1_), 'UnitQuaternion.interp(s, shortest=True) without dest')
        if ok:
            for nm_, got_ in (('two-quaternion form', r[1]), ('slerp', r[2]), ('trinterp(None, R, s)', r[3])):
                L.close(f'UQ.interp(s,shortest)={nm_}', r[0], got_, TOL, 1.0, dict(q=qneg_, s=s1_), what=f'UnitQuaternion.interp(s, shortest=True) without dest differs from the {nm_} for a quaternion with negative scalar part', sig='UQ.interp(no dest, shortest)')
        # the destination on the opposite hemisphere (negative inner product) without shortest: the long arc, at constant rate, exactly as slerp does
        for shortest in (False, True):
            qn = dict(q0=q0, q1=-q1, s=s, shortest=shortest, rel_angle=th)
            ok, r = L.noraise('UQ.interp(opposite)', lambda: (UnitQuaternion(q0).interp(s, UnitQuaternion(-q1), shortest=shortest).vec, b.slerp(q0, -q1, s, shortest=shortest)), qn, 'UnitQuaternion.interp with a destination on the opposite hemisphere')
            if ok and 1e-3 < th < math.pi - 1e-3:
                w2 = r[1] if np.dot(r[0], r[1]) >= 0 else -r[1]
                L.close('UQ.interp=slerp(opposite)', r[0], w2, TOL, 1.0, qn, what='UnitQuaternion.interp differs from slerp when the destination is on the opposite hemisphere', sig='UQ.interp=slerp')
        # shortest: q1 replaced by -q1 (same rotation, long arc when not shortest)
        qi = dict(q0=q0, q1=-q1, s=s, rel_angle=th)
        ok, qs = L.noraise('slerp-shortest', lambda: b.slerp(q0, -q1, s, shortest=True), qi, 'slerp(shortest=True)')
        if ok and 0 < s < 1:
            want = qm(q0, np.r_[math.cos(s * half), math.sin(s * half) * ax])
            if np.dot(want, qs) < 0: want = -want
            L.close('slerp:shortest-arc', qs, want, TOL, 1.0, qi, what='with shortest=True the interpolation does not follow the shorter arc')
        # ---- class methods agree with the matrix functions -----------------------------------------
        X0, X1 = SE3(T0, check=False), SE3(T1, check=False)
        ok, r = L.noraise('SE3.interp', lambda: X1.interp(s, start=X0).A, inp, 'SE3.interp(s, start)')
        if ok and r is None:
            L.check('SE3.interp', False, inp, 'SE3.interp returned an object holding None', sig='SE3.interp:none')
        elif ok:
            either_arc('SE3.interp:constant-rate', r[:3, :3], R0, ax, th, s, inp); L.close('SE3.interp:translation', r[:3, 3], t0 * (1 - s) + s * t1, TOL, tsc, inp)
        ok, r = L.noraise('SO3.interp', lambda: SO3(R1, check=False).interp(s, start=SO3(R0, check=False)).A, dict(R0=R0, R1=R1, s=s), 'SO3.interp(s, start)', sig='SO3.interp:raises')
        if ok and r is not None: either_arc('SO3.interp:constant-rate', r, R0, ax, th, s, dict(R0=R0, R1=R1, s=s))
        if i % 4 == 0:
            sv = [0.0, 0.3, 1.0]
            ok, r = L.noraise('SE3.interp-vector', lambda: X1.interp(sv, start=X0), inp, 'SE3.interp(vector s)')
            if ok:
                L.check('SE3.interp-vector:len', len(r) == 3, inp, 'vector of s does not yield the corresponding sequence')
                if len(r) == 3 and r[1].A is not None: either_arc('SE3.interp-vector', r[1].A[:3, :3], R0, ax, th, 0.3, inp)
        # a vector of s with one element outside [0, 1] (by any amount) is rejected as the scalar is — 3-D and 2-D classes, with and without start
        if i % 4 == 3:
            for badv in ([0.0, 0.5, 1.0 + 10.0 ** g.uniform(-9, 0)], [-10.0 ** g.uniform(-9, 0), 0.5], [0.2, 1.25, 0.4]):
                for cls3, M1_, M0_ in ((SE3, T1, T0), (SO3, R1, R0)):
                    L.raises(f'{cls3.__name__}.interp(vector):range', lambda: cls3(M1_, check=False).interp(badv, start=cls3(M0_, check=False)), dict(cls=cls3.__name__, s=badv), f'{cls3.__name__}.interp with a vector s holding an element outside [0,1] must raise', sig='interp(vector):range')
                    L.raises(f'{cls3.__name__}.interp(vector, no start):range', lambda: cls3(M1_, check=False).interp(badv), dict(cls=cls3.__name__, s=badv), f'{cls3.__name__}.interp(vector s) must reject an element outside [0,1]', sig='interp(vector):range')
        # a vector of s yields, element by element, the scalar results — whatever its end points and order (SO3 and SE3, with and without start)
        if i % 4 == 1:
            for sv2 in ([0.0, 0.25, 0.5], [0.2, 0.7], [1.0, 0.4, 0.0], np.linspace(0, 0.5, 5)):
                for cls3, M1_, M0_ in ((SE3, T1, T0), (SO3, R1, R0)):
                    for with_start in (True, False):
                        st_ = dict(start=cls3(M0_, check=False)) if with_start else {}
                        inpv = dict(cls=cls3.__name__, s=list(np.asarray(sv2, float)), start=with_start)
                        ok, r = L.noraise(f'{cls3.__name__}.interp(vector)', lambda: ([np.asarray(x_, float) for x_ in cls3(M1_, check=False).interp(sv2, **st_).data],
                                                                                  [np.asarray(cls3(M1_, check=False).interp(float(s_), **st_).A, float) for s_ in sv2]), inpv, f'{cls3.__name__}.interp(vector s)',
                                          sig=f'{cls3.__name__}.interp(vector):raises')
                        if ok:
                            L.check(f'{cls3.__name__}.interp(vector):len', len(r[0]) == len(sv2), inpv, 'vector s does not give one pose per s', sig=f'{cls3.__name__}.interp(vector)')
                            if len(r[0]) == len(sv2):
                                for k_ in range(len(sv2)):
                                    L.close(f'{cls3.__name__}.interp(vector)', r[0][k_], r[1][k_], TOL, tsc, dict(inpv, k=k_), what='interp with a vector of s differs from the scalar calls',
                                            sig=f'{cls3.__name__}.interp(vector)')
        # ---- 2-D: angle and translation linear in s -----------------------------------------------------
        a0 = float(g.uniform(-math.pi + 1e-3, math.pi - 1e-3)); da = float(g.choice([-1, 1])) * min(th, math.pi - 1e-3)
        a1 = a0 + da
        if abs(a1) < math.pi - 1e-9:
            U0 = np.eye(3); U0[:2, :2] = inputs.r2(a0); U0[:2, 2] = t0[:2]
            U1 = np.eye(3); U1[:2, :2] = inputs.r2(a1); U1[:2, 2] = t1[:2]
            i2 = dict(T0=U0, T1=U1, s=s)
            ok, Us = L.noraise('trinterp2', lambda: b.trinterp2(U0, U1, s), i2, 'trinterp2')
            if ok and isinstance(Us, np.ndarray):
                L.close('trinterp2:angle-linear', Us[:2, :2], inputs.r2(a0 + s * da), TOL, 1.0, i2); L.close('trinterp2:translation-linear', Us[:2, 2], t0[:2] * (1 - s) + s * t1[:2], TOL, tsc, i2)
            elif ok: L.check('trinterp2', False, i2, 'trinterp2 did not return a matrix', sig='trinterp2:not-matrix')
            ok, Us = L.noraise('SE2.interp', lambda: SE2(U1, check=False).interp(s, start=SE2(U0, check=False)).A, i2, 'SE2.interp')
            if ok and Us is None: L.check('SE2.interp', False, i2, 'SE2.interp returned an object holding None', sig='SE2.interp:none')
            elif ok: L.close('SE2.interp', Us[:2, :2], inputs.r2(a0 + s * da), TOL, 1.0, i2)
            # poses written with integers (dtype int64): quarter turns and integer translations; the result is the real-valued interpolant
            if i % 6 == 0:
                qk = int(g.integers(-1, 3)); Ui = np.array([[round(math.cos(qk * math.pi / 2)), -round(math.sin(qk * math.pi / 2)), int(g.integers(-5, 6))], [round(math.sin(qk * math.pi / 2)), round(math.cos(qk * math.pi / 2)), int(g.integers(-5, 6))], [0, 0, 1]], dtype=np.int64)
                aq = math.atan2(float(Ui[1, 0]), float(Ui[0, 0]))      # the angle the code reads off the matrix: -pi/2, 0, pi/2 or pi
                for nm_, call_, want_ in (('trinterp2(None,int T,s)', lambda: b.trinterp2(None, Ui, s), (s * aq, s * Ui[:2, 2].astype(float))), ('trinterp2(T0,int T,s)', lambda: b.trinterp2(U0, Ui, s), None),
                                          ('SE2(int T).interp(s)', lambda: SE2(Ui).interp(s).A, (s * aq, s * Ui[:2, 2].astype(float)))):
                    ok, Un = L.noraise(nm_, call_, dict(T=Ui.tolist(), s=s), nm_)
                    if ok and isinstance(Un, np.ndarray):
                        if want_ is None: want_ = (a0 * (1 - s) + s * aq, t0[:2] * (1 - s) + s * Ui[:2, 2].astype(float))
                        if True:
                            L.close(f'{nm_}:angle', np.asarray(Un, float)[:2, :2], inputs.r2(want_[0]), TOL, 1.0, dict(T=Ui.tolist(), s=s), what='planar interpolation towards a pose stored with integer dtype is not the real-valued interpolant', sig='trinterp2:int-dtype')
                        L.close(f'{nm_}:translation', np.asarray(Un, float)[:2, 2], want_[1], TOL, max(1.0, tsc), dict(T=Ui.tolist(), s=s), sig='trinterp2:int-dtype')
            ok, Us = L.noraise('trinterp2-R', lambda: b.trinterp2(inputs.r2(a0), inputs.r2(a1), s), i2, 'trinterp2 on SO(2)')
            if ok and isinstance(Us, np.ndarray): L.close('trinterp2-R', Us, inputs.r2(a0 + s * da), TOL, 1.0, i2)
            # start omitted = identity start: the angle is s * (end angle) for every end angle in (-pi, pi), translation s * t1
            for nm_, call_, ref_ in (('trinterp2(None,R,s)', lambda: b.trinterp2(None, inputs.r2(a1), s), inputs.r2(s * a1)),
                                     ('trinterp2(None,T,s)', lambda: b.trinterp2(None, U1, s)[:2, :2], inputs.r2(s * a1)),
                                     ('SO2.interp(s)', lambda: SO2(U1[:2, :2], check=False).interp(s).A, inputs.r2(s * a1)),
                                     ('SE2.interp(s)', lambda: SE2(U1, check=False).interp(s).A[:2, :2], inputs.r2(s * a1))):
                ok, Un = L.noraise(nm_, call_, dict(a1=a1, s=s), f'{nm_} (start omitted)', sig=f'{nm_}:raises')
                if ok and isinstance(Un, np.ndarray): L.close(nm_, Un, ref_, TOL, 1.0, dict(a1=a1, s=s), what='with the start omitted the planar rotation is not through s times the end angle', sig='interp2:nostart')
            ok, Un = L.noraise('trinterp2(None,T,s):t', lambda: b.trinterp2(None, U1, s)[:2, 2], dict(a1=a1, s=s), 'trinterp2(None, T, s)')
            if ok: L.close('trinterp2(None,T,s):translation', Un, s * t1[:2], TOL, tsc, dict(a1=a1, s=s), sig='interp2:nostart')
            # a vector of s (with and without an explicit start) gives, element by element, the scalar results
            svec2 = [0.0, s, 1.0, 0.5 * s]
            for cls2, M0, M1 in ((SE2, U0, U1), (SO2, U0[:2, :2], U1[:2, :2])):
                for with_start in (True, False):
                    def vec_call():
                        st = dict(start=cls2(M0, check=False)) if with_start else {}
                        V = cls2(M1, check=False).interp(svec2, **st)
                        S1 = [cls2(M1, check=False).interp(s_, **st).A for s_ in svec2]
                        return [np.asarray(a_, float) for a_ in V.data], S1
                    ok, r = L.noraise(f'{cls2.__name__}.interp(vector)', vec_call, dict(i2, start=with_start), f'{cls2.__name__}.interp(vector s)')
                    if ok:
                        L.check(f'{cls2.__name__}.interp(vector):len', len(r[0]) == len(svec2), dict(i2, start=with_start), 'vector s does not give one pose per s')
                        if len(r[0]) == len(svec2):
                            for k_ in range(len(svec2)):
                                L.close(f'{cls2.__name__}.interp(vector)', r[0][k_], r[1][k_], TOL, max(1.0, tsc), dict(i2, start=with_start, k=k_),
                                        what='interp with a vector of s differs from the scalar calls', sig=f'{cls2.__name__}.interp(vector):{"start" if with_start else "nostart"}')
    return L.result()

if __name__ == '__main__':
    main_entry(_impl)
