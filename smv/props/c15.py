"""C15 — argument forms and units are interchangeable (enumeration over functions x forms x lengths)."""
import math, re, inspect
import numpy as np
from .common import Laws, run_subprocess, main_entry
from .. import inputs

SPEC = dict(
    technique='Lean 4 proof (argument-form model, scalar/packed and unit equalities on the regenerated model) + exhaustive correspondence and form enumeration',
    lean_modules=['SmVerif.Props.C15', 'SmVerif.Props.Units'],
    groups=['Transforms3d', 'Transforms2d', 'Quaternions'],
    expected_untranslatable=('trinterp_T', 'trinterp_T_nostart'),
    partial=['getvector/isvector are hand-modelled (Logic.ArgCheck) and tied by this enumeration; deg = rad·pi/180 and scalar-vs-packed '
             'equalities are proved between generated configurations'],
    assumptions=['the set of (function, vector parameter) pairs is a curated table cross-checked against the docstring types of base.__all__'],
)

def monitor(tier, seed, search=False):
    return run_subprocess('smv.props.c15', tier, seed, search)

def replay(rp):
    r = run_subprocess('smv.props.c15', 'quick', 0, True)
    hit = [v for v in r['violations'] if v['signature'] == rp.get('signature')]
    return dict(violates=bool(hit), detail=hit[:1])

class V:
    """a vector argument of documented length n (kind selects the values)"""
    def __init__(self, n, kind='any'): self.n = n; self.kind = kind

def _impl(tier, seed, search):
    import spatialmath.base as b
    from spatialmath import SO2, SE2, SO3, SE3, Quaternion, UnitQuaternion, Twist2, Twist3
    from spatialmath.geom3d import Plucker
    g = inputs.rng(seed)
    L = Laws('C15', rule='every base function / class constructor / method with a vector, angle, unit or order argument (curated table cross-checked '
                         'with docstring types) x five container forms x lengths 0..8 x int/float elements x both units x order names; '
                         'a case = one call compared bitwise with the 1-D array form, or one rejection check')
    R3 = inputs.so3(g); T4 = inputs.se3(g, 1)
    BASE = {
        'pure': (b.pure, [V(3)]), 'qnorm': (b.qnorm, [V(4)]), 'quaternions.unit': (b.quaternions.unit, [V(4)]), 'quaternions.isunit': (b.quaternions.isunit, [V(4)]),
        'isequal': (b.isequal, [V(4), V(4)]), 'q2v': (b.q2v, [V(4)]), 'v2q': (b.v2q, [V(3, 'small')]), 'qqmul': (b.qqmul, [V(4), V(4)]), 'inner': (b.inner, [V(4), V(4)]),
        'qvmul': (b.qvmul, [V(4), V(3)]), 'vvmul': (b.vvmul, [V(3, 'small'), V(3, 'small')]), 'qpow': (b.qpow, [V(4), 2]), 'conj': (b.conj, [V(4)]), 'q2r': (b.q2r, [V(4)]),
        'slerp': (b.slerp, [V(4, 'unit'), V(4, 'unit'), 0.3]), 'quaternions.matrix': (b.quaternions.matrix, [V(4)]), 'quaternions.dot': (b.quaternions.dot, [V(4), V(3)]),
        'quaternions.dotb': (b.quaternions.dotb, [V(4), V(3)]), 'quaternions.angle': (b.quaternions.angle, [V(4), V(4)]),
        'trot2(t=)': (lambda t: b.trot2(0.3, t=t), [V(2)]), 'xyt2tr': (b.xyt2tr, [V(3)]), 'transl2': (b.transl2, [V(2)]), 'trexp2': (b.trexp2, [V(3)]),
        'trotx(t=)': (lambda t: b.trotx(0.3, t=t), [V(3)]), 'troty(t=)': (lambda t: b.troty(0.3, t=t), [V(3)]), 'trotz(t=)': (lambda t: b.trotz(0.3, t=t), [V(3)]),
        'transl': (b.transl, [V(3)]), 'rpy2r': (b.rpy2r, [V(3)]), 'rpy2tr': (b.rpy2tr, [V(3)]), 'eul2r': (b.eul2r, [V(3)]), 'eul2tr': (b.eul2tr, [V(3)]),
        'angvec2r': (lambda v: b.angvec2r(0.3, v), [V(3)]), 'angvec2tr': (lambda v: b.angvec2tr(0.3, v), [V(3)]), 'oa2r': (b.oa2r, [V(3), V(3)]), 'oa2tr': (b.oa2tr, [V(3), V(3)]),
        'delta2tr': (b.delta2tr, [V(6)]), 'trexp(3)': (b.trexp, [V(3)]), 'trexp(6)': (b.trexp, [V(6)]),
        'skew(3)': (b.skew, [V(3)]), 'skewa(3)': (b.skewa, [V(3)]), 'skewa(6)': (b.skewa, [V(6)]), 'rodrigues': (b.rodrigues, [V(3)]),
        'rt2tr': (lambda t: b.rt2tr(R3, t), [V(3)]), 'Ab2M': (lambda t: b.Ab2M(R3, t), [V(3)]),
        'colvec': (b.colvec, [V(3)]), 'unitvec': (b.unitvec, [V(3)]), 'unitvec_norm': (b.unitvec_norm, [V(3)]), 'norm': (b.norm, [V(3)]), 'normsq': (b.normsq, [V(3)]),
        'cross': (b.cross, [V(3), V(3)]), 'isunitvec': (b.isunitvec, [V(3)]), 'iszerovec': (b.iszerovec, [V(3)]),
        'isunittwist': (b.isunittwist, [V(6)]), 'isunittwist2': (b.isunittwist2, [V(3)]), 'unittwist': (b.unittwist, [V(6)]), 'unittwist_norm': (b.unittwist_norm, [V(6)]),
        'unittwist2': (b.unittwist2, [V(3)]), 'unittwist2_norm': (b.unittwist2_norm, [V(3)]),
    }
    NOLEN = {'colvec', 'unitvec', 'unitvec_norm', 'norm', 'normsq', 'isunitvec', 'iszerovec'}      # documented as array_like(n): any length
    def values(spec, k=None, dtype=float):
        n = spec.n if k is None else k
        if dtype is int: return [int(x) for x in g.integers(-4, 5, size=n)]
        if dtype is np.float32: return [float(x) / 8.0 for x in g.integers(-24, 25, size=n)]      # exactly representable in single precision
        if spec.kind == 'small': return list(g.uniform(-0.4, 0.4, size=n))
        if spec.kind == 'unit':
            v = g.normal(size=n); return list(v / np.linalg.norm(v))
        return list(g.normal(size=n))
    def forms(vals, dt=float):
        a = np.array(vals, dtype=dt)
        return {'list': list(vals), 'tuple': tuple(vals), 'array': a, 'row': a.reshape(1, -1), 'col': a.reshape(-1, 1)}
    def canon(r):
        if r is None: return None
        if isinstance(r, (tuple, list)): return tuple(canon(x) for x in r)
        if isinstance(r, np.ndarray): return ('arr', r.shape, (r.astype(float) + 0.0).tobytes())      # + 0.0: -0.0 and 0.0 are the same value
        if isinstance(r, (bool, np.bool_)): return bool(r)
        if isinstance(r, (int, float, np.floating, np.integer)): return float(r) + 0.0
        if hasattr(r, 'data') and hasattr(r, 'shape') and not isinstance(r, np.ndarray):
            return ('obj', type(r).__name__, tuple(canon(np.asarray(x)) for x in r.data))
        return repr(r)
    def run(f, args):
        try: return ('ok', canon(f(*args)))
        except Exception as e: return ('exc', type(e).__name__)
    covered = set()
    for name, (f, spec) in BASE.items():
        covered.add(name.split('(')[0].split('.')[-1])
        vec_pos = [i for i, s in enumerate(spec) if isinstance(s, V)]
        for dtype in (float, int, np.float32):
            if dtype is not float and any(isinstance(s, V) and s.kind != 'any' for s in spec): continue
            base_vals = [values(s, dtype=dtype) if isinstance(s, V) else s for s in spec]
            ref = run(f, [np.array(v, dtype=float) if isinstance(s, V) else v for v, s in zip(base_vals, spec)])
            for pos in vec_pos:
                for fname, fv in forms(base_vals[pos], np.float32 if dtype is np.float32 else float).items():
                    args = [np.array(v, dtype=float) if isinstance(s, V) else v for v, s in zip(base_vals, spec)]
                    args[pos] = fv if dtype is not int or fname not in ('list', 'tuple') else type(fv)(base_vals[pos])
                    got = run(f, args)
                    inp = dict(function=name, arg=pos, form=fname, dtype=dtype.__name__, value=base_vals[pos])
                    L.count('forms', key=(name, pos, fname, dtype.__name__)); L.sample(f'forms:{fname}', inp)
                    if got != ref:
                        what = 'raises ' + got[1] if got[0] == 'exc' else ('returns None' if got[1] is None else 'gives a different result')
                        L.fail(f'form:{name}:{fname}', f'base.{name}: argument {pos} given as {fname} {what} (1-D array form: {"raises " + ref[1] if ref[0] == "exc" else "value"})', inp)
                # wrong lengths must be rejected
                if name in NOLEN: continue
                for k in range(0, 9):
                    if k == spec[pos].n: continue
                    if name.startswith('skew(') and k in (1, 3): continue
                    if name.startswith('skewa') and k in (3, 6): continue
                    if name == 'rodrigues' and k in (1, 3): continue
                    if name.startswith('trexp(') and k in (3, 6, 1): continue
                    if name == 'trexp2' and k in (1, 3): continue
                    if name in ('transl2',) and k == 0: pass
                    for fname in ('list', 'array', 'col'):
                        wrong = forms(values(spec[pos], k))[fname]
                        args = [np.array(v, dtype=float) if isinstance(s, V) else v for v, s in zip(base_vals, spec)]
                        args[pos] = wrong
                        inp = dict(function=name, arg=pos, form=fname, length=k, expected=spec[pos].n)
                        L.count('wrong-length', key=(name, pos, fname, k))
                        try:
                            r = f(*args)
                        except Exception:
                            continue
                        L.fail(f'wrong-length:{name}:{"empty" if k == 0 else "len"}', f'base.{name}: a vector of length {k} (expected {spec[pos].n}, form {fname}) was not rejected '
                               f'({"returned None" if r is None else "returned a value"})', inp, observed=repr(r)[:100])
    L.sample('wrong-length', dict(function='transl', form='list', length=2, expected=3))
    # ---- docstring cross-check: every exported base function documenting an array_like(k) parameter is in the table
    missing = []
    for nm in b.__all__:
        fobj = getattr(b, nm)
        if not callable(fobj) or 'plot' in nm or 'print' in nm or 'anim' in nm.lower(): continue
        doc = fobj.__doc__ or ''
        if re.search(r':type \S+: :? ?array_like\(\d\)', doc) and nm not in covered and nm not in ('getunit', 'matrix', 'dot', 'dotb', 'angle', 'unit', 'isunit', 'h2e', 'e2h', 'homtrans'):
            missing.append(nm)
    L.stats['docstring_functions_not_in_table'] = missing
    # ---- class constructors and methods: list / tuple / 1-D array ---------------------------------------------
    th = 0.3
    CLS = {
        'SE3(v)': (lambda v: SE3(v), [V(3)]), 'SE2(v3)': (lambda v: SE2(v), [V(3)]), 'SE2(v2)': (lambda v: SE2(v), [V(2)]),
        'SO3.RPY': (lambda v: SO3.RPY(v), [V(3)]), 'SE3.RPY': (lambda v: SE3.RPY(v), [V(3)]), 'UQ.RPY': (lambda v: UnitQuaternion.RPY(v), [V(3)]),
        'SO3.Eul': (lambda v: SO3.Eul(v), [V(3)]), 'SE3.Eul': (lambda v: SE3.Eul(v), [V(3)]), 'UQ.Eul': (lambda v: UnitQuaternion.Eul(v), [V(3)]),
        'SO3.AngVec': (lambda v: SO3.AngVec(th, v), [V(3)]), 'SE3.AngVec': (lambda v: SE3.AngVec(th, v), [V(3)]), 'UQ.AngVec': (lambda v: UnitQuaternion.AngVec(th, v), [V(3)]),
        'SO3.EulerVec': (lambda v: SO3.EulerVec(v), [V(3)]), 'SE3.EulerVec': (lambda v: SE3.EulerVec(v), [V(3)]), 'UQ.EulerVec': (lambda v: UnitQuaternion.EulerVec(v), [V(3)]),
        'SO3.OA': (lambda o, a: SO3.OA(o, a), [V(3), V(3)]), 'SE3.OA': (lambda o, a: SE3.OA(o, a), [V(3), V(3)]), 'UQ.OA': (lambda o, a: UnitQuaternion.OA(o, a), [V(3), V(3)]),
        'SO3.Exp': (lambda v: SO3.Exp(v), [V(3)]), 'SE3.Exp': (lambda v: SE3.Exp(v), [V(6)]), 'SE2.Exp': (lambda v: SE2.Exp(v), [V(3)]), 'SE3.Delta': (lambda v: SE3.Delta(v), [V(6, 'small')]),
        'SE3.Rx(t=)': (lambda t: SE3.Rx(th, t=t), [V(3)]),
        'UnitQuaternion(v)': (lambda v: UnitQuaternion(v), [V(4)]), 'UnitQuaternion(s,v)': (lambda v: UnitQuaternion(0.5, v), [V(3)]), 'Quaternion(v)': (lambda v: Quaternion(v), [V(4)]),
        'Quaternion(s,v)': (lambda v: Quaternion(0.5, v), [V(3)]), 'Quaternion.Pure': (lambda v: Quaternion.Pure(v), [V(3)]), 'UQ.Vec3': (lambda v: UnitQuaternion.Vec3(v), [V(3, 'small')]),
        'Twist3(v6)': (lambda v: Twist3(v), [V(6)]), 'Twist3(v,w)': (lambda v, w: Twist3(v, w), [V(3), V(3)]), 'Twist3.Revolute': (lambda a, q: Twist3.Revolute(a, q), [V(3), V(3)]),
        'Twist3.Prismatic': (lambda a: Twist3.Prismatic(a), [V(3)]), 'Twist2(v3)': (lambda v: Twist2(v), [V(3)]), 'Twist2.Revolute': (lambda q: Twist2.Revolute(q), [V(2)]),
        'Twist2.Prismatic': (lambda a: Twist2.Prismatic(a), [V(2)]),
        'SE3*v': (lambda v: SE3(T4, check=False) * v, [V(3)]), 'SO3*v': (lambda v: SO3(R3, check=False) * v, [V(3)]), 'UQ*v': (lambda v: UnitQuaternion(SO3(R3, check=False)) * v, [V(3)]),
        'Plucker.PQ': (lambda p, q: Plucker.PQ(p, q), [V(3), V(3)]), 'Plucker.PointDir': (lambda p, q: Plucker.PointDir(p, q), [V(3), V(3)]), 'Plucker(v,w)': (lambda p, q: Plucker(p, q), [V(3), V(3)]),
    }
    for name, (f, spec) in CLS.items():
        base_vals = [values(s) for s in spec]
        ref = run(f, [np.array(v, dtype=float) for v in base_vals])
        for pos in range(len(spec)):
            for fname in ('list', 'tuple', 'array'):
                args = [np.array(v, dtype=float) for v in base_vals]; args[pos] = forms(base_vals[pos])[fname]
                got = run(f, args)
                inp = dict(callable=name, arg=pos, form=fname, value=base_vals[pos])
                L.count('class-forms', key=(name, pos, fname)); L.sample('class-forms', inp)
                if got != ref:
                    what = 'raises ' + got[1] if got[0] == 'exc' else 'gives a different result'
                    L.fail(f'class-form:{name}:{fname}', f'{name}: argument {pos} given as {fname} {what} (1-D array form: {"raises " + ref[1] if ref[0] == "exc" else "value"})', inp)
            for k in (1, 2, 3, 4, 5, 6, 7, 8):       # an empty sequence is a legitimate empty list of values for the classes
                if k == spec[pos].n or (name in ('SE2(v3)', 'SE2(v2)') and k in (2, 3)) or (name in ('Twist3(v6)',) and k == 6): continue
                if name in ('SO3.Exp',) and k in (1,): pass
                args = [np.array(v, dtype=float) for v in base_vals]; args[pos] = list(g.normal(size=k))
                L.count('class-wrong-length', key=(name, pos, k))
                try: r = f(*args)
                except Exception: continue
                L.fail(f'class-wrong-length:{name}', f'{name}: a vector of length {k} (expected {spec[pos].n}) was not rejected', dict(callable=name, arg=pos, length=k), observed=repr(r)[:100])
    # ---- separate scalars == packed vector ------------------------------------------------------------------------
    x0, y0, z0 = (float(v) for v in g.normal(size=3))
    patterns = [(x0, y0, z0), (x0, 0.0, 0.0), (0.0, y0, 0.0), (0.0, 0.0, z0), (x0, y0, 0.0), (x0, 0.0, z0), (0.0, y0, z0), (0.0, 0.0, 0.0),
                (1, 0, 0), (0, 2, 0), (3, 0, 1), (-2, 0.0, 0), (1.0, 1.0, 1.0),
                # NumPy scalar types are scalars too (a loop variable of np.arange, a float32 reading …)
                (np.int64(2), np.int64(0), np.int64(-1)), (np.int32(1), np.int32(2), np.int32(3)), (np.float32(0.5), np.float32(-1.5), np.float32(2.0)),
                (np.float64(x0), np.float64(y0), np.float64(z0)), (np.int64(1), 0.5, np.float32(0.25))]
    for (x, y, z) in patterns:
        PAIRS = {
            'transl': (lambda: b.transl(x, y, z), lambda: b.transl([x, y, z])), 'transl2': (lambda: b.transl2(x, y), lambda: b.transl2([x, y])),
            'rpy2r': (lambda: b.rpy2r(x, y, z), lambda: b.rpy2r([x, y, z])), 'rpy2tr': (lambda: b.rpy2tr(x, y, z), lambda: b.rpy2tr([x, y, z])),
            'rpy2r(xyz)': (lambda: b.rpy2r(x, y, z, order='xyz'), lambda: b.rpy2r([x, y, z], order='xyz')),
            'eul2r': (lambda: b.eul2r(x, y, z), lambda: b.eul2r([x, y, z])), 'eul2tr': (lambda: b.eul2tr(x, y, z), lambda: b.eul2tr([x, y, z])),
            'SE2': (lambda: SE2(x, y, z), lambda: SE2([x, y, z])), 'SE3': (lambda: SE3(x, y, z), lambda: SE3([x, y, z])),
            'SE2(x,y)': (lambda: SE2(x, y), lambda: SE2([x, y])),
            'SE2(deg)': (lambda: SE2(x, y, 30 * z, unit='deg'), lambda: SE2([x, y, 30 * z], unit='deg')),
        }
        zeros = ''.join('0' if v == 0 else 'n' for v in (x, y, z))
        for name, (fa, fb) in PAIRS.items():
            L.count('scalar-vs-packed', key=(name, zeros)); L.sample('scalar-vs-packed', dict(callable=name, values=[x, y, z]))
            ra, rb = run(fa, []), run(fb, [])
            if ra != rb: L.fail(f'scalar-vs-packed:{name}', f'{name}: separate-scalar and packed-vector call forms differ ({ra[0]}/{rb[0]}) for values {(x, y, z)}', dict(callable=name, values=[x, y, z]))
    x, y, z = x0, y0, z0
    # ---- units -------------------------------------------------------------------------------------------------------
    a = float(g.uniform(-170, 170)); ar = a * math.pi / 180
    a3 = g.uniform(-80, 80, size=3); a3r = a3 * math.pi / 180
    def close(la, fa, fb, tol=1e-12, scale=1.0):
        L.count('units', key=la); L.sample('units', dict(callable=la, degrees=a))
        try: ra, rb = fa(), fb()
        except Exception as e:
            L.fail(f'units-raises:{la}', f'{la}: raised {type(e).__name__}: {str(e)[:80]}', dict(callable=la)); return
        def arr(r):
            if hasattr(r, 'A') and not isinstance(r, np.ndarray): r = r.A
            if isinstance(r, tuple): return np.concatenate([np.ravel(np.asarray(t_, float)) for t_ in r])
            return np.asarray(r, float)
        A_, B_ = arr(ra), arr(rb)
        if A_.shape != B_.shape or not np.allclose(A_, B_, rtol=0, atol=tol * scale):
            L.fail(f'units:{la}', f"{la}: unit='deg' with angle a differs from unit='rad' with a*pi/180", dict(callable=la, degrees=a))
    for ax in 'xyz':
        close(f'rot{ax}', lambda: getattr(b, 'rot' + ax)(a, 'deg'), lambda: getattr(b, 'rot' + ax)(ar)); close(f'trot{ax}', lambda: getattr(b, 'trot' + ax)(a, 'deg'), lambda: getattr(b, 'trot' + ax)(ar))
        close(f'SO3.R{ax}', lambda: getattr(SO3, 'R' + ax)(a, 'deg'), lambda: getattr(SO3, 'R' + ax)(ar)); close(f'SE3.R{ax}', lambda: getattr(SE3, 'R' + ax)(a, 'deg'), lambda: getattr(SE3, 'R' + ax)(ar))
        close(f'UQ.R{ax}', lambda: getattr(UnitQuaternion, 'R' + ax)(a, 'deg').vec, lambda: getattr(UnitQuaternion, 'R' + ax)(ar).vec)
    close('rot2', lambda: b.rot2(a, 'deg'), lambda: b.rot2(ar)); close('trot2', lambda: b.trot2(a, 'deg'), lambda: b.trot2(ar))
    tt_ = list(g.normal(size=3))
    for ax in 'xyz':       # … also together with the translation option
        close(f'trot{ax}(t=)', lambda: getattr(b, 'trot' + ax)(a, 'deg', t=tt_), lambda: getattr(b, 'trot' + ax)(ar, t=tt_))
        close(f'SE3.R{ax}(t=)', lambda: getattr(SE3, 'R' + ax)(a, 'deg', t=tt_), lambda: getattr(SE3, 'R' + ax)(ar, t=tt_))
        close(f'SE3.R{ax}(list, t=)', lambda: np.array([np.asarray(x_, float) for x_ in getattr(SE3, 'R' + ax)([a, a / 2], 'deg', t=tt_).data]), lambda: np.array([np.asarray(x_, float) for x_ in getattr(SE3, 'R' + ax)([ar, ar / 2], t=tt_).data]))
    close('trot2(t=)', lambda: b.trot2(a, 'deg', t=tt_[:2]), lambda: b.trot2(ar, t=tt_[:2]))
    close('xyt2tr', lambda: b.xyt2tr([x, y, a], 'deg'), lambda: b.xyt2tr([x, y, ar]))
    for o in ('zyx', 'xyz', 'yxz', 'vehicle', 'arm', 'camera'):
        close(f'rpy2r[{o}]', lambda: b.rpy2r(a3, unit='deg', order=o), lambda: b.rpy2r(a3r, order=o)); close(f'rpy2tr[{o}]', lambda: b.rpy2tr(a3, unit='deg', order=o), lambda: b.rpy2tr(a3r, order=o))
        Rr = b.rpy2r(a3r, order=o)
        close(f'tr2rpy[{o}]', lambda: b.tr2rpy(Rr, unit='deg', order=o), lambda: b.tr2rpy(Rr, order=o) * 180 / math.pi, 1e-9, 180.0)
        close(f'SO3.RPY[{o}]', lambda: SO3.RPY(a3, unit='deg', order=o), lambda: SO3.RPY(a3r, order=o)); close(f'SE3.RPY[{o}]', lambda: SE3.RPY(a3, unit='deg', order=o), lambda: SE3.RPY(a3r, order=o))
        close(f'UQ.RPY[{o}]', lambda: UnitQuaternion.RPY(a3, unit='deg', order=o).vec, lambda: UnitQuaternion.RPY(a3r, order=o).vec)
        close(f'SO3.rpy[{o}]', lambda: SO3(Rr).rpy(unit='deg', order=o), lambda: SO3(Rr).rpy(order=o) * 180 / math.pi, 1e-9, 180.0)
        close(f'UQ.rpy[{o}]', lambda: UnitQuaternion(SO3(Rr)).rpy(unit='deg', order=o), lambda: UnitQuaternion(SO3(Rr)).rpy(order=o) * 180 / math.pi, 1e-9, 180.0)
    close('eul2r', lambda: b.eul2r(a3, unit='deg'), lambda: b.eul2r(a3r)); close('eul2tr', lambda: b.eul2tr(a3, unit='deg'), lambda: b.eul2tr(a3r))
    # twist exponentials with an explicit angle: scalar and sequence theta, both classes
    from spatialmath import Twist3 as Tw3_, Twist2 as Tw2_
    Su3 = Tw3_.Revolute(g.normal(size=3), g.normal(size=3)); Su2 = Tw2_.Revolute(g.normal(size=2))
    for nm_, S_ in (('Twist3', Su3), ('Twist2', Su2)):
        close(f'{nm_}.exp(scalar)', lambda: S_.exp(a, units='deg').A, lambda: S_.exp(ar).A)
        for fn_, mk_ in (('list', list), ('tuple', tuple), ('array', np.array)):
            close(f'{nm_}.exp({fn_})', lambda: np.array([np.asarray(x_, float) for x_ in S_.exp(mk_([a, a / 2, -a / 3]), units='deg').data]),
                  lambda: np.array([np.asarray(x_, float) for x_ in S_.exp(mk_([ar, ar / 2, -ar / 3])).data]))
    Re = b.eul2r(a3r)
    close('tr2eul', lambda: b.tr2eul(Re, unit='deg'), lambda: b.tr2eul(Re) * 180 / math.pi, 1e-9, 180.0)
    close('SO3.Eul', lambda: SO3.Eul(a3, unit='deg'), lambda: SO3.Eul(a3r)); close('SE3.Eul', lambda: SE3.Eul(a3, unit='deg'), lambda: SE3.Eul(a3r)); close('UQ.Eul', lambda: UnitQuaternion.Eul(a3, unit='deg').vec, lambda: UnitQuaternion.Eul(a3r).vec)
    close('SO3.eul', lambda: SO3(Re).eul(unit='deg'), lambda: SO3(Re).eul() * 180 / math.pi, 1e-9, 180.0)
    vv = g.normal(size=3)
    close('angvec2r', lambda: b.angvec2r(a, vv, unit='deg'), lambda: b.angvec2r(ar, vv)); close('angvec2tr', lambda: b.angvec2tr(a, vv, unit='deg'), lambda: b.angvec2tr(ar, vv))
    close('SO3.AngVec', lambda: SO3.AngVec(a, vv, unit='deg'), lambda: SO3.AngVec(ar, vv)); close('SE3.AngVec', lambda: SE3.AngVec(a, vv, unit='deg'), lambda: SE3.AngVec(ar, vv))
    close('UQ.AngVec', lambda: UnitQuaternion.AngVec(a, vv, unit='deg').vec, lambda: UnitQuaternion.AngVec(ar, vv).vec)
    Ra = b.angvec2r(abs(ar), vv)
    close('tr2angvec', lambda: b.tr2angvec(Ra, unit='deg')[0], lambda: b.tr2angvec(Ra)[0] * 180 / math.pi, 1e-9, 180.0)
    close('SO3.angvec', lambda: SO3(Ra).angvec(unit='deg')[0], lambda: SO3(Ra).angvec()[0] * 180 / math.pi, 1e-9, 180.0)
    # planar outputs in degrees are the radian outputs times 180/pi to the last digits (1e-12 relative), at several angles
    for ath_ in (0.5235987755982988, 3.0, -2.2, 1e-3):
        Tx_ = b.xyt2tr([1.5, -0.5, ath_])
        close(f'tr2xyt({ath_:.3g},deg):angle', lambda: b.tr2xyt(Tx_, unit='deg')[2], lambda: b.tr2xyt(Tx_)[2] * 180 / math.pi, 1e-12, abs(ath_) * 180 / math.pi)
        close(f'SO2.theta({ath_:.3g},deg)', lambda: SO2(ath_).theta(unit='deg'), lambda: SO2(ath_).theta() * 180 / math.pi, 1e-12, abs(ath_) * 180 / math.pi)
    # every alias of an axis order extracts the same angles as the order it stands for, in the base function and in each class
    for al_, o_ in (('vehicle', 'zyx'), ('arm', 'xyz'), ('camera', 'yxz')):
        close(f'tr2rpy[{al_}]', lambda: b.tr2rpy(Rr, order=al_), lambda: b.tr2rpy(Rr, order=o_)); close(f'tr2rpy[{al_},deg]', lambda: b.tr2rpy(Rr, order=al_, unit='deg'), lambda: b.tr2rpy(Rr, order=o_, unit='deg'))
        close(f'SO3.rpy[{al_}]', lambda: SO3(Rr).rpy(order=al_), lambda: SO3(Rr).rpy(order=o_)); close(f'SE3.rpy[{al_}]', lambda: SE3(b.r2t(Rr)).rpy(order=al_), lambda: SE3(b.r2t(Rr)).rpy(order=o_))
        close(f'UQ.rpy[{al_}]', lambda: UnitQuaternion(SO3(Rr)).rpy(order=al_), lambda: UnitQuaternion(SO3(Rr)).rpy(order=o_)); close(f'rpy2r[{al_}]', lambda: b.rpy2r(a3r, order=al_), lambda: b.rpy2r(a3r, order=o_))
        close(f'rpy2r(tr2rpy)[{al_}]', lambda: b.rpy2r(b.tr2rpy(Rr, order=al_), order=al_), lambda: Rr, 1e-9, 1.0)
    # angles of a full turn or more in degrees: still the radian call with a*pi/180 (value for value — getunit, twists, quaternion components)
    for abig in (400.0, -725.0, 360.0, 1234.5):
        abr = abig * math.pi / 180
        close(f'getunit({abig},deg)', lambda: b.getunit(abig, 'deg'), lambda: abr, 1e-12, abs(abr)); close(f'getunit([{abig}],deg)', lambda: b.getunit(np.array([abig, 30.0]), 'deg'), lambda: np.array([abr, math.pi / 6]), 1e-12, abs(abr))
        close(f'UQ.Rx({abig},deg)', lambda: UnitQuaternion.Rx(abig, 'deg').vec, lambda: UnitQuaternion.Rx(abr).vec); close(f'UQ.AngVec({abig},deg)', lambda: UnitQuaternion.AngVec(abig, vv, unit='deg').vec, lambda: UnitQuaternion.AngVec(abr, vv).vec)
        close(f'Twist3.Rx({abig},deg)', lambda: Twist3.Rx([abig], 'deg').S, lambda: Twist3.Rx([abr]).S); close(f'rotx({abig},deg)', lambda: b.rotx(abig, 'deg'), lambda: b.rotx(abr))
        close(f'Twist3.exp({abig},deg)', lambda: Twist3([0.3, 0.1, 0.7, 0, 0, 1]).exp(abig, units='deg').A, lambda: Twist3([0.3, 0.1, 0.7, 0, 0, 1]).exp(abr).A, 1e-9, abs(abr))
    # the accessors of every class that has them, and the constructors given several triples at once (N x 3, list of triples)
    close('SE3.angvec', lambda: SE3(b.r2t(Ra)).angvec(unit='deg')[0], lambda: SE3(b.r2t(Ra)).angvec()[0] * 180 / math.pi, 1e-9, 180.0)
    close('UQ.angvec', lambda: UnitQuaternion(SO3(Ra)).angvec(unit='deg')[0], lambda: UnitQuaternion(SO3(Ra)).angvec()[0] * 180 / math.pi, 1e-9, 180.0)
    close('UQ.angvec=SO3.angvec', lambda: UnitQuaternion(SO3(Ra)).angvec(unit='deg')[0], lambda: SO3(Ra).angvec(unit='deg')[0], 1e-9, 180.0)
    close('SE3.eul', lambda: SE3(b.r2t(Re)).eul(unit='deg'), lambda: SE3(b.r2t(Re)).eul() * 180 / math.pi, 1e-9, 180.0); close('UQ.eul', lambda: UnitQuaternion(SO3(Re)).eul(unit='deg'), lambda: UnitQuaternion(SO3(Re)).eul() * 180 / math.pi, 1e-9, 180.0)
    stack_ = lambda X_: np.array([np.asarray(x_, float) for x_ in X_.data])
    a23 = np.array([a3, [a3[2] / 2, -a3[0], a3[1] / 3]]); a23r = np.radians(a23)
    for nm_, ctor_ in (('SO3.Eul', SO3.Eul), ('SE3.Eul', SE3.Eul), ('UQ.Eul', UnitQuaternion.Eul), ('SO3.RPY', SO3.RPY), ('SE3.RPY', SE3.RPY), ('UQ.RPY', UnitQuaternion.RPY)):
        for fm_, mk_ in (('Nx3', lambda x_: np.array(x_)), ('list of lists', lambda x_: [list(r_) for r_ in x_]), ('list of arrays', lambda x_: [np.array(r_) for r_ in x_])):
            if nm_.startswith('UQ'): continue       # (the quaternion constructors take one triple)
            close(f'{nm_}({fm_})', lambda: stack_(ctor_(mk_(a23), unit='deg')), lambda: stack_(ctor_(mk_(a23r))))
            la_ = f'{nm_}({fm_}, unknown unit)'
            L.count('unknown-unit', key=la_)
            try:
                ctor_(mk_(a23), unit='degrees'); L.fail(f'unknown-option:{la_}', f"{la_}: unit='degrees' must be rejected with an exception", dict(callable=la_))
            except Exception: pass
    close('SO2(theta)', lambda: SO2(a, unit='deg'), lambda: SO2(ar)); close('SE2(x,y,theta)', lambda: SE2(x, y, a, unit='deg'), lambda: SE2(x, y, ar))
    close('SO2.theta', lambda: SO2(ar).theta(unit='deg'), lambda: SO2(ar).theta() * 180 / math.pi, 1e-9, 180.0)
    T2u = b.xyt2tr([x, y, ar])
    close('tr2xyt', lambda: b.tr2xyt(T2u, unit='deg'), lambda: b.tr2xyt(T2u) * np.r_[1, 1, 180 / math.pi], 1e-9, 180.0)
    close('SO2.theta(multi)', lambda: np.asarray(SO2([ar, ar / 2]).theta(unit='deg'), float), lambda: np.asarray(SO2([ar, ar / 2]).theta(), float) * 180 / math.pi, 1e-9, 180.0)
    for o in ('zyx', 'xyz', 'yxz'):        # singular configurations too (pitch = +-90 deg): the unit conversion must not depend on the branch
        for pv in (90.0, -90.0):
            Rs_ = b.rpy2r([20.0, pv, -35.0], unit='deg', order=o)
            close(f'tr2rpy-singular[{o}]', lambda: b.tr2rpy(Rs_, unit='deg', order=o), lambda: b.tr2rpy(Rs_, order=o) * 180 / math.pi, 1e-9, 180.0)
            close(f'SO3.rpy-singular[{o}]', lambda: SO3(Rs_, check=False).rpy(unit='deg', order=o), lambda: SO3(Rs_, check=False).rpy(order=o) * 180 / math.pi, 1e-9, 180.0)
    for e2 in (0.0, 180.0):
        Re_ = b.eul2r([25.0, e2, 40.0], unit='deg')
        close('tr2eul-singular', lambda: b.tr2eul(Re_, unit='deg'), lambda: b.tr2eul(Re_) * 180 / math.pi, 1e-9, 180.0)
    # multi-valued objects: order / unit must reach every element
    Xm = SO3([b.rpy2r(a3r, order='zyx'), b.rpy2r(a3r * 0.5, order='zyx')])
    for o in ('zyx', 'xyz', 'yxz'):
        def per_elem(A_):           # (N,3) or (3,N): one row per value
            A_ = np.asarray(A_, float); return A_ if A_.shape == (2, 3) else A_.T
        close(f'SO3.rpy(multi)[{o}]', lambda: per_elem(Xm.rpy(unit='deg', order=o)), lambda: np.stack([np.asarray(Xm[k_].rpy(order=o), float) for k_ in range(2)]) * 180 / math.pi, 1e-9, 180.0)
    close('SO3.eul(multi)', lambda: per_elem(Xm.eul(unit='deg')), lambda: np.stack([np.asarray(Xm[k_].eul(), float) for k_ in range(2)]) * 180 / math.pi, 1e-9, 180.0)
    # array_like angle arguments: list / tuple / array forms of angdiff
    for nm_, fa_, fb_ in (('angdiff(list)', lambda: b.angdiff([4.0, -7.0, 0.3]), lambda: b.angdiff(np.array([4.0, -7.0, 0.3]))),
                          ('angdiff(tuple)', lambda: b.angdiff((4.0, -7.0, 0.3)), lambda: b.angdiff(np.array([4.0, -7.0, 0.3]))),
                          ('angdiff(list,list)', lambda: b.angdiff([4.0, -7.0], [0.5, 9.0]), lambda: b.angdiff(np.array([4.0, -7.0]), np.array([0.5, 9.0]))),
                          ('angdiff(list,scalar)', lambda: b.angdiff([4.0, -7.0], 0.5), lambda: b.angdiff(np.array([4.0, -7.0]), 0.5)),
                          ('angdiff(scalar,list)', lambda: b.angdiff(0.5, [4.0, -7.0]), lambda: b.angdiff(0.5, np.array([4.0, -7.0])))):
        L.count('forms-angle', key=nm_); L.sample('forms-angle', dict(callable=nm_))
        ra_, rb_ = run(fa_, []), run(fb_, [])
        if ra_ != rb_: L.fail(f'form:{nm_}', f'{nm_}: list/tuple form differs from the array form ({ra_[0]}/{rb_[0]})', dict(callable=nm_))
    close('Twist3.exp(units)', lambda: Twist3.Revolute([0, 0, 1], [1, 2, 0]).exp(a, units='deg'), lambda: Twist3.Revolute([0, 0, 1], [1, 2, 0]).exp(ar), 1e-9)
    close('Twist2.exp(units)', lambda: Twist2.Revolute([1, 2]).exp(a, units='deg'), lambda: Twist2.Revolute([1, 2]).exp(ar), 1e-9)
    # ---- a function's special-case shortcuts must not bypass the argument conversion: slerp at s = 0, 1 (forms and lengths) ---------
    qa_, qb_ = np.array([0.5, 0.5, 0.5, 0.5]), np.array([1.0, 0, 0, 0])
    for s_ in (0, 1, 0.0, 1.0, 0.5):
        ref_ = run(lambda: b.slerp(qa_, qb_, s_), [])
        for which in (0, 1):
            for fname, fv in forms(list(qa_ if which == 0 else qb_)).items():
                args_ = [fv, qb_] if which == 0 else [qa_, fv]
                L.count('forms-slerp', key=(s_, which, fname))
                got_ = run(lambda: b.slerp(args_[0], args_[1], s_), [])
                if got_ != ref_: L.fail(f'form:slerp:{fname}', f'slerp at s={s_}: argument {which} given as {fname} gives a different result / type than the 1-D array form', dict(callable='slerp', s=s_, form=fname))
            for k in (0, 1, 2, 3, 5, 8):
                bad_ = list(range(1, k + 1)); args_ = [bad_, qb_] if which == 0 else [qa_, bad_]
                L.count('wrong-length-slerp', key=(s_, which, k))
                try: r_ = b.slerp(args_[0], args_[1], s_)
                except Exception: continue
                L.fail('wrong-length:slerp', f'slerp at s={s_}: a quaternion argument of length {k} was not rejected', dict(callable='slerp', s=s_, length=k), observed=repr(r_)[:80])
    # list / tuple / array of angles given to SO2 with unit='deg' equals the scalar constructor element by element
    for angs in ([30.0, 60.0], (90.0,), np.array([10.0, -20.0, 170.0])):
        L.count('units-list', key=len(angs))
        try:
            Xl = SO2(angs, unit='deg'); want_ = [SO2(float(a_), unit='deg').A for a_ in angs]
            okl = len(Xl) == len(angs) and all(np.allclose(np.asarray(x_, float), w_, rtol=0, atol=1e-12) for x_, w_ in zip(Xl.data, want_))
            if not okl: L.fail('units:SO2(list,deg)', "SO2(list of angles, unit='deg') differs from SO2(angle, unit='deg') element by element", dict(angles=list(map(float, angs))))
        except Exception as e:
            L.fail('units-raises:SO2(list,deg)', f"SO2(list of angles, unit='deg') raised {type(e).__name__}", dict(angles=list(map(float, angs))))
    # ---- unknown order / unit rejected -----------------------------------------------------------------------------------
    REJ = {
        'rpy2r(order=zxy)': lambda: b.rpy2r(a3r, order='zxy'), 'rpy2tr(order=abc)': lambda: b.rpy2tr(a3r, order='abc'), 'tr2rpy(order=zyz)': lambda: b.tr2rpy(Rr, order='zyz'),
        'rpy2r(order=ZYX)': lambda: b.rpy2r(a3r, order='ZYX'), 'SO3.RPY(order=xzy)': lambda: SO3.RPY(a3r, order='xzy'), 'SE3.RPY(order=)': lambda: SE3.RPY(a3r, order=''),
        'UQ.RPY(order=bad)': lambda: UnitQuaternion.RPY(a3r, order='bad'), 'SO3.rpy(order=bad)': lambda: SO3(Rr).rpy(order='bad'),
        'rotx(unit=grad)': lambda: b.rotx(a, 'grad'), 'roty(unit=degrees)': lambda: b.roty(a, 'degrees'), 'rotz(unit=DEG)': lambda: b.rotz(a, 'DEG'), 'rot2(unit=grad)': lambda: b.rot2(a, 'grad'),
        'trotx(unit=grad)': lambda: b.trotx(a, 'grad'), 'trot2(unit=grad)': lambda: b.trot2(a, 'grad'), 'rpy2r(unit=grad)': lambda: b.rpy2r(a3, unit='grad'), 'eul2r(unit=grad)': lambda: b.eul2r(a3, unit='grad'),
        'angvec2r(unit=grad)': lambda: b.angvec2r(a, vv, unit='grad'), 'xyt2tr(unit=grad)': lambda: b.xyt2tr([x, y, a], 'grad'), 'SO3.Rx(unit=grad)': lambda: SO3.Rx(a, 'grad'), 'SE3.Ry(unit=grad)': lambda: SE3.Ry(a, 'grad'),
        'UQ.Rz(unit=grad)': lambda: UnitQuaternion.Rz(a, 'grad'), 'SO2(unit=grad)': lambda: SO2(a, unit='grad'), 'SE2(unit=grad)': lambda: SE2(x, y, a, unit='grad'), 'SO3.RPY(unit=grad)': lambda: SO3.RPY(a3, unit='grad'),
        'SO3.Eul(unit=grad)': lambda: SO3.Eul(a3, unit='grad'), 'SO3.AngVec(unit=grad)': lambda: SO3.AngVec(a, vv, unit='grad'), 'UQ.AngVec(unit=grad)': lambda: UnitQuaternion.AngVec(a, vv, unit='grad'),
        'Twist3.exp(list, units=degrees)': lambda: Tw3_.Revolute([0, 0, 1], [1, 0, 0]).exp([10.0, 20.0], units='degrees'), 'Twist3.exp(scalar, units=grad)': lambda: Tw3_.Revolute([0, 0, 1], [1, 0, 0]).exp(10.0, units='grad'),
        'Twist2.exp(list, units=grad)': lambda: Tw2_.Revolute([1, 2]).exp([10.0, 20.0], units='grad'),
        'trotx(unit=grad, t=)': lambda: b.trotx(a, 'grad', t=[1, 2, 3]), 'troty(unit=degrees, t=)': lambda: b.troty(a, 'degrees', t=[1, 2, 3]), 'trotz(unit=grad, t=)': lambda: b.trotz(a, 'grad', t=[1, 2, 3]),
        'getunit(unit=grad)': lambda: b.getunit(a, 'grad'), 'angvec2r(zero axis, unit=grad)': lambda: b.angvec2r(a, [0, 0, 0], unit='grad'),
        'angvec2tr(zero axis, unit=grad)': lambda: b.angvec2tr(a, [0, 0, 0], unit='grad'), 'SO3.AngVec(zero axis, unit=grad)': lambda: SO3.AngVec(a, [0, 0, 0], unit='grad'),
        'SO3.rpy(multi, order=xzy)': lambda: Xm.rpy(order='xzy'),
    }
    for name, f in REJ.items():
        L.raises('unknown-option', f, dict(call=name), f'{name} must be rejected with an exception', sig=f'unknown-option:{name}')
    # round 11: the unit option of Twist2.exp / Twist3.exp on *prismatic* twists (the library converts the parameter like any other angle
    # argument, printing a notice): degrees = radians·π/180, scalar and sequence; a misspelt unit is rejected there too
    import io as _io, contextlib as _cl
    for nmp_, Pp_ in (('Twist2.Prismatic', lambda: Tw2_.Prismatic([1.0, 2.0])), ('Twist2([vx,vy,0])', lambda: Tw2_([0.5, -1.5, 0.0])),
                      ('Twist3.Prismatic', lambda: Tw3_.Prismatic([1.0, 2.0, 2.0])), ('Twist3([v,0])', lambda: Tw3_([0.5, -1.5, 2.0, 0, 0, 0]))):
        def both_(arg_d, arg_r):
            with _cl.redirect_stdout(_io.StringIO()):
                A_ = Pp_().exp(arg_d, units='deg'); B_ = Pp_().exp(arg_r)
            return [np.asarray(x_.A, float) for x_ in A_], [np.asarray(x_.A, float) for x_ in B_]
        for argd_ in (30.0, -725.0, [30.0, 60.0], np.array([10.0, 200.0, -45.0])):
            argr_ = (np.asarray(argd_, float) * math.pi / 180); argr_ = float(argr_) if argr_.ndim == 0 else argr_
            inp_ = dict(twist=nmp_, theta_deg=argd_)
            ok, r = L.noraise(f'{nmp_}.exp(deg)', lambda: both_(argd_, argr_), inp_, f'{nmp_}.exp(theta, units="deg")', sig=f'prismatic-exp-deg:{nmp_}:raises')
            if ok:
                L.check(f'{nmp_}.exp(deg):len', len(r[0]) == len(r[1]), inp_, 'degree and radian calls return different numbers of poses')
                for A_, B_ in zip(*r):
                    L.close(f'{nmp_}.exp(deg)', A_, B_, 1e-12, max(1.0, float(np.max(np.abs(B_)))), inp_, what='exp(θ, units="deg") of a prismatic twist is not exp(θ·π/180)', sig=f'prismatic-exp-deg:{nmp_}')
        def bad_():
            with _cl.redirect_stdout(_io.StringIO()): return Pp_().exp(30.0, units='degrees')
        L.raises('unknown-option', bad_, dict(call=f'{nmp_}.exp(units=degrees)'), f'{nmp_}.exp(30, units="degrees") must be rejected with an exception', sig=f'unknown-option:{nmp_}.exp(units=degrees)')
    res = L.result(); res['exhaustive'] = True
    return res

def correspondence(tier, seed):
    from .common import model_correspondence
    return model_correspondence('smv.props.c15', tier, seed)

def _corr(tier, seed):
    """getvector / isvector on every container form x length 0..8 x required length None/0..8 vs Logic.ArgCheck"""
    import spatialmath.base as b
    rows = []
    N = 7 if tier == 'quick' else 9
    def make(form):
        t = form.split(':')
        vals = lambda n: [0.5 + i for i in range(n)]
        if t[0] == 'scalar': return 1.5
        if t[0] == 'list': return vals(int(t[1]))
        if t[0] == 'tuple': return tuple(vals(int(t[1])))
        if t[0] == 'arr1': return np.array(vals(int(t[1])), dtype=float)
        if t[0] == 'row': return np.array(vals(int(t[1])), dtype=float).reshape(1, -1)
        if t[0] == 'col': return np.array(vals(int(t[1])), dtype=float).reshape(-1, 1)
        if t[0] == 'arr2': return np.arange(int(t[1]) * int(t[2]), dtype=float).reshape(int(t[1]), int(t[2]))
        return {'a': 1}
    forms = ['scalar', 'other'] + [f'{k}:{n}' for k in ('list', 'tuple', 'arr1', 'row', 'col') for n in range(0, N)] + \
            [f'arr2:{r}:{c}' for r in range(2, 5) for c in range(2, 5)]
    dims = ['_'] + [str(d) for d in range(0, N)]
    for f in forms:
        for d in dims:
            dim = None if d == '_' else int(d)
            try:
                r = b.getvector(make(f), dim)
                exp = f'ok{len(r)}' if isinstance(r, np.ndarray) and r.ndim == 1 else f'badresult:{type(r).__name__}'
            except ValueError: exp = 'ValueError'
            except TypeError: exp = 'TypeError'
            except Exception as e: exp = 'exc:' + type(e).__name__
            rows.append(dict(req=f'logic getvector {f} {d}', exp=exp, meta=dict(form=f, dim=d)))
            try:
                r = b.isvector(make(f), dim)
                exp = 'true' if r is True or r is np.True_ else ('false' if r is False or r is np.False_ else f'badresult:{r!r}')
            except Exception as e: exp = 'exc:' + type(e).__name__
            rows.append(dict(req=f'logic isvector {f} {d}', exp=exp, meta=dict(form=f, dim=d)))
    return rows

if __name__ == '__main__':
    main_entry(_impl, _corr)
