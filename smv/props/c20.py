"""C20 — spatial 6-vectors and inertia follow Featherstone's spatial algebra (float monitor + class enumeration)."""
import math, operator
import numpy as np
from .common import Laws, run_subprocess, main_entry
from .. import inputs
from . import geom

SPEC = dict(
    technique='Lean 4 proof (spatial cross products, duality, inertia, SE3 action; regenerated model) + float monitor',
    lean_modules=['SmVerif.Props.C20'],
    groups=['Spatial'],
    partial=['cross-product matrices, duality, parallel-axis inertia and the SE3 action are proved on the traced class methods; class / length guards are enumerated'],
    assumptions=['agreement 1e-9 relative on generated inputs only'],
)

def monitor(tier, seed, search=False):
    return run_subprocess('smv.props.c20', tier, seed, search)

def replay(rp):
    r = run_subprocess('smv.props.c20', 'quick', 0, True)
    hit = [v for v in r['violations'] if v['signature'] == rp.get('signature')]
    return dict(violates=bool(hit), detail=hit[:1])

def sk(w): return np.array([[0, -w[2], w[1]], [w[2], 0, -w[0]], [-w[1], w[0], 0]])

def _impl(tier, seed, search):
    import spatialmath.base as b
    from spatialmath import SE3, Twist3
    from spatialmath.spatialvector import SpatialVelocity, SpatialAcceleration, SpatialForce, SpatialMomentum, SpatialInertia
    g = inputs.rng(seed)
    n = 100 if tier == 'quick' else 2000
    if search: n *= 3
    TOL = 1e-9
    L = Laws('C20', rule='real 6-vectors with magnitudes 1e-6..1e6, masses > 0, centres of mass, symmetric positive-definite rotational inertias, all rigid motions, '
                         'every ordered pair of spatial-vector classes, single- and multi-valued objects; a case = one check')
    CL = [SpatialVelocity, SpatialAcceleration, SpatialForce, SpatialMomentum]
    def v6(): return g.normal(size=6) * 10.0 ** g.uniform(-6, 6)
    for i in range(n):
        a, c = v6(), v6(); sa = max(float(np.max(np.abs(a))), float(np.max(np.abs(c))))
        for cls in CL:
            A, C = cls(a), cls(c)
            inp = dict(cls=cls.__name__, a=a, b=c)
            ok, r = L.noraise('add', lambda: A + C, inp, f'{cls.__name__} + {cls.__name__}')
            if ok:
                L.check('add:class', type(r) is cls, inp, 'sum has a different class'); L.close('add', r.A, a + c, TOL, sa, inp)
            ok, r = L.noraise('sub', lambda: A - C, inp, f'{cls.__name__} - {cls.__name__}')
            if ok:
                L.check('sub:class', type(r) is cls, inp, 'difference has a different class'); L.close('sub', r.A, a - c, TOL, sa, inp)
            ok, r = L.noraise('neg', lambda: -A, inp, f'-{cls.__name__}')
            if ok:
                L.check('neg:class', type(r) is cls, inp, 'negation has a different class'); L.close('neg', r.A, -a, 1e-15, sa, inp)
            # multi-valued, equal lengths
            if i % 5 == 0:
                M1, M2 = cls(a), cls(c); M1.append(cls(c)); M2.append(cls(a))
                ok, r = L.noraise('add-multi', lambda: M1 + M2, inp, 'multi-valued sum')
                if ok and len(r) == 2: L.close('add-multi', np.array(r.data), np.array([a + c, c + a]), TOL, sa, inp)
                elif ok: L.check('add-multi', False, inp, 'multi-valued sum has the wrong length')
                L.raises('add-unequal-length', lambda: M1 + cls(a), inp, 'adding spatial vectors of unequal length must raise', sig='add-unequal-length')
                L.raises('sub-unequal-length', lambda: M1 - cls(a), inp, 'subtracting spatial vectors of unequal length must raise', sig='add-unequal-length')
                ok, r = L.noraise('sub-multi', lambda: M1 - M2, inp, 'multi-valued difference')
                if ok and len(r) == 2: L.close('sub-multi', np.array(r.data), np.array([a - c, c - a]), TOL, sa, inp)
                elif ok: L.check('sub-multi', False, inp, 'multi-valued difference has the wrong length')
                ok, r = L.noraise('neg-multi', lambda: -M1, inp, 'negation of a multi-valued spatial vector', sig='neg-multi:raises')
                if ok:
                    L.check('neg-multi:class', type(r) is cls and len(r) == 2, inp, 'negation of a 2-valued object is not a 2-valued object of the same class')
                    if len(r) == 2: L.close('neg-multi', np.array(r.data), np.array([-a, -c]), 1e-15, sa, inp)
        # multi-valued objects of every length 2..8 (6 x 6 is also a matrix form): +, - and negation stay element-wise
        if i % 7 == 1:
            for cls in CL:
                for M_ in range(2, 9):
                    xs_ = [v6() for _ in range(M_)]; ys_ = [v6() for _ in range(M_)]
                    minp = dict(cls=cls.__name__, M=M_)
                    def build(vs_):
                        X_ = cls(vs_[0].copy())
                        for v_ in vs_[1:]: X_.append(cls(v_.copy()))
                        return X_
                    ok, r = L.noraise('multi(M)', lambda: ((build(xs_) + build(ys_)).data, (build(xs_) - build(ys_)).data, (-build(xs_)).data), minp, f'+, -, negation on {M_}-valued {cls.__name__}', sig='multi(M):raises')
                    if ok:
                        sm_ = max(float(np.max(np.abs(xs_))), float(np.max(np.abs(ys_))))
                        for nm_, got_, want_ in (('add', r[0], [x_ + y_ for x_, y_ in zip(xs_, ys_)]), ('sub', r[1], [x_ - y_ for x_, y_ in zip(xs_, ys_)]), ('neg', r[2], [-x_ for x_ in xs_])):
                            L.check(f'multi(M):{nm_}:len', len(got_) == M_, minp, f'{nm_} of {M_}-valued objects has {len(got_)} values', sig=f'multi(M):{nm_}')
                            if len(got_) == M_: L.close(f'multi(M):{nm_}', np.array([np.asarray(g_, float).ravel() for g_ in got_]), np.array(want_), TOL, sm_, minp, what=f'{nm_} on {M_}-valued {cls.__name__} is not element-wise', sig=f'multi(M):{nm_}')
        if i == 0:
            for c1 in CL:
                for c2 in CL:
                    if c1 is c2: continue
                    for opn, f in (('+', operator.add), ('-', operator.sub)):
                        L.raises('mixed-class', lambda: f(c1(a), c2(c)), dict(left=c1.__name__, right=c2.__name__, op=opn), f'{c1.__name__} {opn} {c2.__name__} must raise', sig=f'mixed-class:{c1.__name__}{opn}{c2.__name__}')
        # cross products
        vel, m2, frc = v6(), v6(), v6()
        w_, v_ = vel[3:], vel[:3]
        crm = np.block([[sk(w_), sk(v_)], [np.zeros((3, 3)), sk(w_)]])
        sv = float(np.max(np.abs(vel)))
        ok, r = L.noraise('crm', lambda: SpatialVelocity(vel).cross(SpatialVelocity(m2)), dict(v=vel, m=m2), 'velocity x motion')
        if ok:
            L.check('crm:class', type(r) is SpatialAcceleration, dict(v=vel, m=m2), 'v x m is not a SpatialAcceleration')
            L.close('crm', r.A, crm @ m2, TOL, sv * float(np.max(np.abs(m2))), dict(v=vel, m=m2), what='motion cross product is not [skew(w) skew(v); 0 skew(w)] m')
        ok, r = L.noraise('crf', lambda: SpatialVelocity(vel).cross(SpatialForce(frc)), dict(v=vel, f=frc), 'velocity x* force')
        if ok:
            L.check('crf:class', type(r) is SpatialForce, dict(v=vel, f=frc), 'v x* f is not a SpatialForce')
            L.close('crf', r.A, -crm.T @ frc, TOL, sv * float(np.max(np.abs(frc))), dict(v=vel, f=frc), what='force cross product is not the negative transpose of the motion cross product')
            ok2, r2 = L.noraise('crm2', lambda: SpatialVelocity(vel).cross(SpatialVelocity(m2)), dict(v=vel, m=m2), 'v x m')
            if ok2: L.close('duality', float(np.dot(r.A, m2)), -float(np.dot(frc, r2.A)), TOL, sv * float(np.max(np.abs(frc))) * float(np.max(np.abs(m2))) * 6, dict(v=vel, f=frc, m=m2), what='(v x* f).m != -f.(v x m)')
        # operands given with integer entries (lists / integer arrays): same products
        mi = [int(x_) for x_ in g.integers(-3, 4, size=6)]; fi = [int(x_) for x_ in g.integers(-3, 4, size=6)]
        for form_, mk_ in (('list', lambda v_: list(v_)), ('int array', lambda v_: np.array(v_, dtype=int))):
            ok, r = L.noraise('cross(int)', lambda: (SpatialVelocity(vel).cross(SpatialVelocity(mk_(mi))).A, SpatialVelocity(vel).cross(SpatialForce(mk_(fi))).A, (SpatialVelocity(vel) @ SpatialVelocity(mk_(mi))).A),
                              dict(v=vel, m=mi, f=fi, form=form_), 'cross products with integer-valued operands')
            if ok:
                sci = sv * 3.0
                L.close('crm(int)', r[0], crm @ np.array(mi, float), TOL, sci, dict(v=vel, m=mi, form=form_), what='motion cross product with an integer-valued operand differs from the matrix form', sig='cross(int)')
                L.close('crf(int)', r[1], -crm.T @ np.array(fi, float), TOL, sci, dict(v=vel, f=fi, form=form_), sig='cross(int)')
                L.close('matmul(int)', r[2], crm @ np.array(mi, float), TOL, sci, dict(v=vel, m=mi, form=form_), sig='cross(int)')
        # velocities with an exactly zero angular or linear part (prismatic / revolute joint velocities): the same matrices
        if i % 3 == 0:
            for nm_, vz in (('linear only', np.r_[vel[:3], 0, 0, 0]), ('angular only', np.r_[0, 0, 0, vel[3:]]), ('one linear component', np.r_[0, 0, 0.8, 0, 0, 0]), ('one angular component', np.r_[0, 0, 0, 0, -1.3, 0])):
                vz = np.asarray(vz, float); Wz = sk(vz[3:]); Vz = sk(vz[:3]); crz = np.block([[Wz, Vz], [np.zeros((3, 3)), Wz]])
                ok, r = L.noraise(f'cross({nm_})', lambda: (SpatialVelocity(vz).cross(SpatialVelocity(m2)).A, SpatialVelocity(vz).cross(SpatialForce(frc)).A, SpatialAcceleration(vz).cross(SpatialVelocity(m2)).A if hasattr(SpatialAcceleration, 'cross') else None), dict(v=vz, m=m2, f=frc), 'cross products of a velocity with a zero part')
                if ok:
                    L.close(f'crm({nm_})', r[0], crz @ m2, TOL, max(1.0, float(np.max(np.abs(vz)))) * float(np.max(np.abs(m2))), dict(v=vz, m=m2), what=f'motion cross product of a velocity with {nm_} is not [skew(w) skew(v); 0 skew(w)] m', sig='cross:zero-part')
                    L.close(f'crf({nm_})', r[1], -crz.T @ frc, TOL, max(1.0, float(np.max(np.abs(vz)))) * float(np.max(np.abs(frc))), dict(v=vz, f=frc), what=f'force cross product of a velocity with {nm_} is not the negative transpose of the motion cross product', sig='cross:zero-part')
        # poses within 1e-9 .. 1e-7 of the identity still act through their adjoint (visible on large vectors and in increments)
        if i % 4 == 1:
            dsm = g.normal(size=6) * 10.0 ** g.uniform(-9, -7.5); Tsm = SE3.Delta(dsm) if i % 8 == 1 else SE3(*dsm[:3])
            big = v6() * 1e6 / max(1e-300, float(np.max(np.abs(v6())))); Ads = b.adjoint(Tsm.A) if hasattr(b, 'adjoint') else Tsm.Ad()
            for cls_ in (SpatialVelocity, SpatialForce):
                ok, r = L.noraise('SE3(near identity)*vector', lambda: (Tsm * cls_(big)).A, dict(T=Tsm.A, x=big, cls=cls_.__name__), 'near-identity SE3 * spatial vector')
                if ok:
                    want_ = Ads @ big if cls_ is SpatialVelocity else Ads.T @ big
                    L.close('SE3(near identity)*vector', r - big, want_ - big, 1e-6, float(np.max(np.abs(want_ - big))) + 1e-9, dict(T=Tsm.A, x=big, cls=cls_.__name__), what='the increment T*x - x of a near-identity pose is not that of the adjoint', sig='SE3*vector:near-identity')
        # the adjoint of a motion given as a twist about an axis off the origin equals the adjoint of its SE3; and the product after the pose
        # object has been edited in place uses the new value (nothing remembered from the first product)
        if i % 5 == 2:
            Xa_ = SE3(inputs.se3(g, 1), check=False); xa_ = v6()
            ok, r = L.noraise('Twist3.Ad', lambda: (Twist3(Xa_).Ad(), Twist3.Revolute([0, 0, 1], [1, 2, 0]).Ad() if False else Twist3(Xa_).SE3().Ad(), Xa_.Ad()), dict(T=Xa_.A), 'Twist3(X).Ad()')
            for nm_, Sp_ in (('prismatic', np.r_[g.normal(size=3), 0, 0, 0]), ('translation twist', Twist3(SE3(0.5, 0, -0.2)).S), ('revolute off origin', Twist3.Revolute([0, 0, 1], [1, 2, 0]).S * 0.7)):
                okp, rp = L.noraise(f'Twist3.Ad({nm_})', lambda: (Twist3(Sp_).Ad(), b.adjoint(b.trexp(Sp_))), dict(S=Sp_), 'Twist3.Ad()')
                if okp: L.close(f'Twist3.Ad({nm_})', rp[0], rp[1], 1e-7, max(1.0, float(np.max(np.abs(rp[1])))), dict(S=Sp_), what=f'the adjoint of a {nm_} twist is not the adjoint of its exponential', sig='Twist3.Ad')
            if ok: L.close('Twist3(X).Ad()=X.Ad()', r[0], r[2], 1e-7, max(1.0, geom.tmag(Xa_.A)), dict(T=Xa_.A), what='the adjoint of a rigid motion given as a Twist3 differs from the adjoint of the SE3', sig='Twist3.Ad')
            def edit_then_mul():
                Xe_ = SE3(Xa_.A.copy(), check=False); first_ = (Xe_ * SpatialVelocity(xa_)).A.copy(); Ad1_ = Xe_.Ad(); Ad1_[0, 0] += 0.0
                Xe_[0] = SE3(inputs.se3(g, 1), check=False); second_ = (Xe_ * SpatialVelocity(xa_)).A
                return first_, second_, Xe_.A.copy()
            ok, r = L.noraise('SE3*vector after in-place edit', edit_then_mul, dict(x=xa_), 'X * S, X[0] = ..., X * S')
            if ok:
                L.close('SE3*vector (first)', r[0], b.adjoint(Xa_.A) @ xa_, TOL, max(1.0, float(np.max(np.abs(xa_)))) * max(1.0, geom.tmag(Xa_.A)), dict(x=xa_), sig='SE3*vector:after-edit')
                L.close('SE3*vector (after X[0] = Y)', r[1], b.adjoint(r[2]) @ xa_, TOL, max(1.0, float(np.max(np.abs(xa_)))) * max(1.0, geom.tmag(r[2])), dict(x=xa_), what='after the pose object was edited in place, X * S still uses the adjoint of the old value', sig='SE3*vector:after-edit')
        # sequences of unequal length never combine, whichever side is longer, under + and -
        if i % 10 == 0:
            for cls_ in (SpatialVelocity, SpatialForce):
                for (nl_, nr_) in ((1, 3), (2, 3), (2, 5), (3, 1), (3, 2)):
                    def mkn_(n_): return cls_(np.array([v6() for _ in range(n_)]).T) if n_ > 1 else cls_(v6())
                    for opn_, fo_ in (('+', operator.add), ('-', operator.sub)):
                        if 1 in (nl_, nr_): continue
                        L.raises(f'unequal-lengths:{cls_.__name__}', lambda: fo_(mkn_(nl_), mkn_(nr_)), dict(cls=cls_.__name__, op=opn_, len_left=nl_, len_right=nr_), f'{cls_.__name__}[{nl_}] {opn_} {cls_.__name__}[{nr_}] must raise', sig=f'unequal-lengths:{cls_.__name__}{opn_}')
        ok, r = L.noraise('crf(momentum)', lambda: (SpatialVelocity(vel).cross(SpatialMomentum(frc)), SpatialVelocity(vel) @ SpatialMomentum(frc)), dict(v=vel, h=frc), 'velocity x* momentum')
        if ok:
            L.close('crf(momentum)', r[0].A, -crm.T @ frc, TOL, sv * float(np.max(np.abs(frc))), dict(v=vel, h=frc), what='force cross product applied to a momentum is not the negative transpose of the motion cross product', sig='crf:momentum')
            L.close('crf(momentum) @', r[1].A, -crm.T @ frc, TOL, sv * float(np.max(np.abs(frc))), dict(v=vel, h=frc), sig='crf:momentum')
        ok, r = L.noraise('matmul', lambda: SpatialVelocity(vel) @ SpatialVelocity(m2), dict(v=vel, m=m2), 'SpatialVelocity @ SpatialVelocity')
        if ok: L.close('matmul', r.A, crm @ m2, TOL, sv * float(np.max(np.abs(m2))), dict(v=vel, m=m2))
        # inertia
        mass = 10.0 ** g.uniform(-3, 3); com = g.normal(size=3) * 10.0 ** g.uniform(-2, 1)
        Q_ = g.normal(size=(3, 3)); Irot = Q_ @ Q_.T + np.eye(3) * 0.1
        Cm = sk(com)
        Iref = np.block([[mass * np.eye(3), mass * Cm.T], [mass * Cm, Irot + mass * Cm @ Cm.T]])
        iinp = dict(m=mass, c=com, I=Irot)
        ok, I = L.noraise('inertia', lambda: SpatialInertia(mass, com, Irot), iinp, 'SpatialInertia(m, c, I)')
        if ok:
            IA = np.asarray(I.A, float); si = float(np.max(np.abs(Iref)))
            L.close('inertia:parallel-axis', IA, Iref, TOL, si, iinp); L.close('inertia:symmetric', IA, IA.T, TOL, si, iinp)
            mass2 = 10.0 ** g.uniform(-3, 3)
            ok2, I2 = L.noraise('inertia2', lambda: SpatialInertia(mass2, -com, Irot * 2), iinp, 'second inertia')
            if ok2:
                ok3, S = L.noraise('inertia-add', lambda: I + I2, iinp, 'SpatialInertia + SpatialInertia', sig='inertia-add:raises')
                if ok3:
                    L.check('inertia-add:class', type(S) is SpatialInertia, iinp, 'sum of inertias is not a SpatialInertia')
                    L.close('inertia-add', S.A, IA + np.asarray(I2.A, float), TOL, max(si, float(np.max(np.abs(I2.A)))), iinp, what='inertias of joined bodies do not add')
            # point mass (no rotational inertia given): the parallel-axis term alone, identical to passing a zero rotational inertia
            ok2, Ip = L.noraise('inertia(m, c)', lambda: (SpatialInertia(mass, com).A, SpatialInertia(mass, com, np.zeros((3, 3))).A), iinp, 'SpatialInertia(m, c)', sig='inertia(m,c):raises')
            if ok2:
                Ipm = np.block([[mass * np.eye(3), mass * Cm.T], [mass * Cm, mass * Cm @ Cm.T]]); sp_ = float(np.max(np.abs(Ipm)))
                L.close('inertia(m, c)', np.asarray(Ip[0], float), Ipm, TOL, sp_, iinp, what='SpatialInertia(m, c) is not the parallel-axis matrix of a point mass', sig='inertia(m,c)')
                L.close('inertia(m, c)=inertia(m, c, 0)', np.asarray(Ip[0], float), np.asarray(Ip[1], float), TOL, sp_, iinp, sig='inertia(m,c)')
            acc = v6() / 1e3
            ok2, F = L.noraise('I*a', lambda: I * SpatialAcceleration(acc), dict(iinp, a=acc), 'inertia * acceleration')
            if ok2:
                L.check('I*a:class', type(F) is SpatialForce, iinp, 'I * a is not a SpatialForce'); L.close('I*a', F.A, Iref @ acc, TOL, si * float(np.max(np.abs(acc))), dict(iinp, a=acc))
            ok2, Mo = L.noraise('I*v', lambda: I * SpatialVelocity(acc), dict(iinp, v=acc), 'inertia * velocity')
            if ok2:
                L.check('I*v:class', type(Mo) is SpatialMomentum, iinp, 'I * v is not a SpatialMomentum'); L.close('I*v', Mo.A, Iref @ acc, TOL, si * float(np.max(np.abs(acc))), dict(iinp, v=acc))
            L.raises('I*force', lambda: I * SpatialForce(acc), iinp, 'inertia * force must raise')
        # SE3 action
        T = inputs.se3(g, 2); X = SE3(T, check=False)
        # independent reference: Ad(T) = [[R, skew(t) R], [0, R]]  (never the library's own adjoint)
        R_, t_ = T[:3, :3], T[:3, 3]
        Sk = np.array([[0, -t_[2], t_[1]], [t_[2], 0, -t_[0]], [-t_[1], t_[0], 0]])
        Ad = np.block([[R_, Sk @ R_], [np.zeros((3, 3)), R_]])
        x = v6(); sx = float(np.max(np.abs(x))) * max(1.0, geom.tmag(T))
        for cls in (SpatialVelocity, SpatialAcceleration):
            ok, r = L.noraise('SE3*motion', lambda: X * cls(x), dict(T=T, x=x, cls=cls.__name__), f'SE3 * {cls.__name__}')
            if ok:
                L.check('SE3*motion:class', type(r) is cls, dict(cls=cls.__name__), 'class not preserved'); L.close('SE3*motion', r.A, Ad @ x, TOL, sx, dict(T=T, x=x), what='SE3 * motion vector is not Ad(T) x')
        for cls in (SpatialForce, SpatialMomentum):
            ok, r = L.noraise('SE3*force', lambda: X * cls(x), dict(T=T, x=x, cls=cls.__name__), f'SE3 * {cls.__name__}')
            if ok:
                L.check('SE3*force:class', type(r) is cls, dict(cls=cls.__name__), 'class not preserved'); L.close('SE3*force', r.A, Ad.T @ x, TOL, sx, dict(T=T, x=x), what='SE3 * force vector is not Ad(T)ᵀ x')
    # round 11: the adjoint of a rigid motion given as a *small* Twist3 (Twist3.Ad, and the Twist3 left operand of a spatial vector) is Ad(exp(S)),
    # reference: SciPy's matrix exponential of the 4x4 se(3) matrix and the block formula; a buffer handed to a constructor is not kept
    import scipy.linalg as _sl
    for s_ in (np.array([3e-4, -2e-4, 1e-4, 2e-4, -3e-4, 1e-4]), np.array([5e-4, 1e-4, -4e-4, -1e-4, 2e-4, 6e-4]), np.array([0.3, -0.2, 0.1, 0.2, -0.3, 0.1]),
               np.array([2e-6, 1e-6, -3e-6, 1e-6, -2e-6, 2e-6])):
        se_ = np.zeros((4, 4)); se_[:3, :3] = sk(s_[3:]); se_[:3, 3] = s_[:3]
        Te_ = _sl.expm(se_); Re_, te_ = Te_[:3, :3], Te_[:3, 3]
        Ade_ = np.block([[Re_, sk(te_) @ Re_], [np.zeros((3, 3)), Re_]])
        inp_ = dict(S=s_)
        ok, r = L.noraise('Twist3.Ad(small)', lambda: Twist3(s_).Ad(), inp_, 'Twist3.Ad()', sig='Twist3.Ad:raises')
        if ok: L.close('Twist3.Ad(small)', np.asarray(r, float), Ade_, TOL, 1.0, inp_, what='Twist3.Ad() is not the adjoint of exp(S)', sig='Twist3.Ad:value')
        x_ = np.arange(1.0, 7.0)
        for cls_ in (SpatialVelocity, SpatialForce):
            ok, r = L.noraise('Twist3*vector', lambda: cls_(x_).__rmul__(Twist3(s_)), inp_, f'Twist3 * {cls_.__name__}', sig='Twist3*vector:raises')
            if ok and r is not NotImplemented:
                L.close('Twist3*vector', r.A, (Ade_ if cls_ is SpatialVelocity else Ade_.T) @ x_, TOL, 6.0, dict(inp_, cls=cls_.__name__), what='Twist3 * spatial vector is not Ad(exp(S)) x (motion) / its transpose (force)', sig='Twist3*vector:value')
    for cls_ in CL:
        buf_ = np.array([1.0, -2.0, 3.0, 0.5, 0.25, -4.0]); keep_ = buf_.copy()
        ok, A_ = L.noraise('ctor(buffer)', lambda: cls_(buf_), dict(cls=cls_.__name__), 'constructor from a float array', sig='ctor-buffer:raises')
        if ok:
            buf_[:] = 7.0
            ok2, r = L.noraise('ctor(buffer) +', lambda: (A_.A.copy(), (A_ + cls_(keep_)).A), dict(cls=cls_.__name__), 'use after the caller reuses its buffer', sig='ctor-buffer:raises')
            if ok2:
                L.close('ctor(buffer)', r[0], keep_, 1e-15, 1.0, dict(cls=cls_.__name__, given=keep_), what='a spatial vector changes when the array it was built from is overwritten', sig='ctor-buffer')
                L.close('ctor(buffer) +', r[1], 2 * keep_, 1e-15, 1.0, dict(cls=cls_.__name__, given=keep_), sig='ctor-buffer')
    return L.result()

if __name__ == '__main__':
    main_entry(_impl)
