"""C14 — normalisation projects onto the group and is idempotent (float monitor)."""
import math
import numpy as np
from .common import Laws, run_subprocess, main_entry
from .. import inputs
from . import geom

SPEC = dict(
    technique='Lean 4 proof (normalisation returns members, idempotent, keeps directions; angle wrapping) + float monitor of noise bands',
    lean_modules=['SmVerif.Props.C14', 'SmVerif.Props.VecPreds', 'SmVerif.Props.Norm2'],
    groups=['Transforms3d', 'Transforms2d', 'Quaternions', 'Vectors'],
    expected_untranslatable=('trinterp_T', 'trinterp_T_nostart'),
    partial=['idempotence and fixed points are proved in exact arithmetic; the 1e-12 float statement is explored'],
    assumptions=['tolerance 1e-12 on generated inputs only'],
)

def monitor(tier, seed, search=False):
    return run_subprocess('smv.props.c14', tier, seed, search)

def replay(rp):
    r = run_subprocess('smv.props.c14', 'quick', 0, True)
    hit = [v for v in r['violations'] if v['signature'] == rp.get('signature')]
    return dict(violates=bool(hit), detail=hit[:1])

def _impl(tier, seed, search):
    import spatialmath.base as b
    from spatialmath import SO2, SE2, SO3, SE3, Quaternion, UnitQuaternion, Twist2, Twist3
    g = inputs.rng(seed)
    n = 200 if tier == 'quick' else 4000
    if search: n *= 3
    TOL = 1e-12
    PI = math.pi
    L = Laws('C14', rule='valid members perturbed by noise 1e-15..1e-2; non-zero vectors/quaternions/twists with norms 1e-6..1e6; twists with rotational part '
                         'exactly zero or below/above the zero threshold; angles and differences within ±1e3 incl. exact multiples of pi; a case = one check')
    for i in range(n):
        # ---- trnorm ------------------------------------------------------------------------------
        R = inputs.so3(g); noise = 10.0 ** g.uniform(-15, -2)
        kind_ = ('generic', 'shear', 'scale-pair', 'first-column')[i % 4]
        if kind_ == 'generic': Rn = R + g.normal(size=(3, 3)) * noise
        elif kind_ == 'shear':            # determinant stays exactly 1, columns are no longer orthogonal
            Sh = np.eye(3); i_, j_ = [(0, 1), (1, 2), (0, 2), (2, 1), (1, 0), (2, 0)][int(g.integers(6))]; Sh[i_, j_] = noise; Rn = R @ Sh
        elif kind_ == 'scale-pair':       # opposing scale errors: det = 1 - noise^2
            Rn = R @ np.diag([1 + noise, 1 - noise, 1.0][::int(g.choice([-1, 1]))])
        else:                             # only the first column is disturbed
            Rn = R.copy(); Rn[:, 0] += g.normal(size=3) * noise
        inp = dict(R=Rn, noise=noise, kind=kind_)
        ok, N = L.noraise('trnorm', lambda: b.trnorm(Rn), inp, 'trnorm(R)')
        if ok:
            r = geom.so_residual(N); L.count('trnorm:valid'); L.maxres['trnorm:valid'] = max(L.maxres.get('trnorm:valid', 0), r)
            if not r <= TOL: L.fail('trnorm:valid', f'trnorm result is not a rotation matrix to 1e-12 (residual {r:.3g})', inp, N)
            L.close('trnorm:idempotent', b.trnorm(N), N, TOL, 1.0, inp)
            a0 = Rn[:, 2] / np.linalg.norm(Rn[:, 2])
            L.close('trnorm:approach-direction', N[:, 2], a0, TOL, 1.0, inp, what='trnorm changes the direction of the third (approach) axis')
            nrm = np.cross(Rn[:, 1], Rn[:, 2]); nrm = nrm / np.linalg.norm(nrm)
            L.close('trnorm:second-axis-in-plane', float(np.dot(N[:, 1], nrm)), 0.0, TOL, 1.0, inp, what='second axis leaves the plane of the original second and third axes')
        L.close('trnorm:fixes-valid', b.trnorm(R), R, TOL, 1.0, dict(R=R))
        t = inputs.translation(g); Tn = np.eye(4); Tn[:3, :3] = Rn; Tn[:3, 3] = t
        ok, N4 = L.noraise('trnorm-T', lambda: b.trnorm(Tn), dict(T=Tn), 'trnorm(T)')
        if ok:
            L.check('trnorm-T:translation', np.array_equal(N4[:3, 3], t) and np.array_equal(N4[3, :], [0, 0, 0, 1]), dict(T=Tn), 'trnorm changes the translation or the last row')
            if N is not None: L.close('trnorm-T:rotation', N4[:3, :3], N, TOL, 1.0, dict(T=Tn))
        ok, Xn = L.noraise('SE3.norm', lambda: SE3(Tn, check=False).norm().A, dict(T=Tn), 'SE3.norm()')
        if ok and N4 is not None and Xn is not None: L.close('SE3.norm', Xn, N4, TOL, max(1.0, geom.tmag(Tn)), dict(T=Tn))
        ok, Xn = L.noraise('SO3.norm', lambda: SO3(Rn, check=False).norm().A, dict(R=Rn), 'SO3.norm()')
        if ok and N is not None and Xn is not None: L.close('SO3.norm', Xn, N, TOL, 1.0, dict(R=Rn))
        if i % 5 == 0:
            R2n = inputs.so2(g) + g.normal(size=(2, 2)) * noise
            ok, Xn = L.noraise('SO2.norm', lambda: SO2(R2n, check=False).norm().A, dict(R=R2n), 'SO2.norm()', sig='SO2.norm:raises')
            if ok and Xn is not None:
                r = geom.so_residual(Xn); L.check('SO2.norm:valid', r <= TOL, dict(R=R2n), f'SO2.norm result not valid (residual {r:.3g})')
            T2n = np.eye(3); T2n[:2, :2] = R2n; T2n[:2, 2] = t[:2]
            ok, Xn = L.noraise('SE2.norm', lambda: SE2(T2n, check=False).norm().A, dict(T=T2n), 'SE2.norm()', sig='SE2.norm:raises')
            if ok and Xn is not None:
                r = geom.se_residual(Xn); L.check('SE2.norm:valid', r <= TOL, dict(T=T2n), f'SE2.norm result not valid (residual {r:.3g})')
        # planar normalisation in full: members are returned unchanged (also for angles within 1e-9 .. 1e-5 of 0 and of pi, where an
        # inverse cosine would lose them), idempotent, the direction of the second column is kept, the translation untouched
        if i % 3 == 0:
            th2_ = float(g.choice([float(g.uniform(-math.pi, math.pi)), float(g.choice([-1, 1])) * 10.0 ** g.uniform(-9, -5), float(g.choice([-1, 1])) * (math.pi - 10.0 ** g.uniform(-9, -5)), 0.0, math.pi]))
            R2v = inputs.r2(th2_); T2v = np.eye(3); T2v[:2, :2] = R2v; T2v[:2, 2] = t[:2]
            for nm_, call_, A_ in (('trnorm2(R)', lambda: b.trnorm2(R2v), R2v), ('trnorm2(T)', lambda: b.trnorm2(T2v), T2v), ('SO2.norm', lambda: SO2(R2v, check=False).norm().A, R2v), ('SE2.norm', lambda: SE2(T2v, check=False).norm().A, T2v),
                                   ('SE2.norm(multi)[1]', lambda: SE2([np.eye(3), T2v], check=False).norm().data[1], T2v)):
                ok, r = L.noraise(f'{nm_}:fixes-valid', call_, dict(theta=th2_), f'{nm_} of a valid planar value')
                if ok and r is not None: L.close(f'{nm_}:fixes-valid', np.asarray(r, float), A_, TOL, max(1.0, geom.tmag(A_)) if A_.shape == (3, 3) else 1.0, dict(theta=th2_), what=f'{nm_} does not return an already valid value unchanged', sig='trnorm2:fixes-valid')
            nz2 = g.normal(size=(2, 2)) * noise; R2p = R2v + nz2
            ok, r = L.noraise('trnorm2(noisy)', lambda: (b.trnorm2(R2p), b.trnorm2(b.trnorm2(R2p))), dict(R=R2p), 'trnorm2 of a noisy rotation', sig='trnorm2:raises')
            if ok:
                o_ = R2p[:, 1] / np.linalg.norm(R2p[:, 1])
                L.check('trnorm2:valid', geom.so_residual(r[0]) <= TOL, dict(R=R2p), 'trnorm2 result is not a rotation to 1e-12', sig='trnorm2'); L.close('trnorm2:idempotent', r[1], r[0], TOL, 1.0, dict(R=R2p), sig='trnorm2')
                L.close('trnorm2:second-axis', r[0][:, 1], o_, TOL, 1.0, dict(R=R2p), what='trnorm2 does not keep the direction of the second column', sig='trnorm2')
        # single-precision vectors: the result is the double-precision unit vector of the values given
        if i % 4 == 1:
            v32 = (g.normal(size=3) * 10.0 ** g.uniform(-6, 6)).astype(np.float32); v64 = v32.astype(float)
            if np.all(np.isfinite(v64)) and np.linalg.norm(v64) > 0:
                ok, r = L.noraise('unitvec(float32)', lambda: (np.asarray(b.unitvec(v32), float), np.asarray(b.unitvec_norm(v32)[0], float), np.asarray(b.unitvec(b.unitvec(v32)), float)), dict(v=v64), 'unitvec of a float32 vector')
                if ok:
                    L.close('unitvec(float32)', r[0], v64 / np.linalg.norm(v64), TOL, 1.0, dict(v=v64), what='unitvec of a float32 vector is not the unit vector to 1e-12', sig='unitvec:float32'); L.close('unitvec_norm(float32)', r[1], v64 / np.linalg.norm(v64), TOL, 1.0, dict(v=v64), sig='unitvec:float32')
                    L.close('unitvec(float32):idempotent', r[2], r[0], TOL, 1.0, dict(v=v64), sig='unitvec:float32')
        # quaternions with one component tiny relative to the others (1e-12 .. 1e-8): a component, not a rounding residue — the direction is
        # kept to 1e-12 and an already unit value comes back unchanged
        if i % 4 == 2:
            qt_ = g.normal(size=4); kt_ = int(g.integers(4)); qt_[kt_] = float(g.choice([-1, 1])) * 10.0 ** g.uniform(-12, -8) * float(np.linalg.norm(qt_)); qtu_ = qt_ / np.linalg.norm(qt_); magt_ = 10.0 ** g.uniform(-3, 3)
            for nm_, call_ in (('base.unit', lambda: b.unit(qt_ * magt_)), ('Quaternion.unit', lambda: Quaternion(qt_ * magt_).unit().vec), ('UnitQuaternion(v)', lambda: UnitQuaternion(qt_ * magt_).vec), ('base.unit(unit)', lambda: b.unit(qtu_)), ('UnitQuaternion(unit)', lambda: UnitQuaternion(qtu_).vec)):
                ok, r = L.noraise(f'{nm_}(tiny component)', call_, dict(q=qt_, k=kt_), f'{nm_} of a quaternion with one tiny component')
                if ok: L.close(f'{nm_}(tiny component)', np.asarray(r, float), qtu_, TOL, 1.0, dict(q=qt_, k=kt_), what=f'{nm_} changes the direction of a quaternion that has one comparatively tiny component', sig='unit:tiny-component')
        # unit() of objects holding 1 .. 5 values, among them the quaternion basis (whose stacked rows happen to form a valid 4x4 matrix)
        if i % 16 == 3:
            for nq_ in (1, 2, 3, 4, 5):
                for kind_, rows_ in (('basis', [np.eye(4)[k_ % 4] * (2.0 + k_) for k_ in range(nq_)]), ('random', [g.normal(size=4) * 10.0 ** g.uniform(-2, 2) for _ in range(nq_)])):
                    ok, r = L.noraise(f'Quaternion.unit(N={nq_})', lambda: [np.asarray(a_, float) for a_ in Quaternion(rows_).unit().data], dict(N=nq_, kind=kind_), 'unit() of a multi-valued quaternion')
                    if ok:
                        L.check('Quaternion.unit(multi):len', len(r) == nq_, dict(N=nq_, kind=kind_), f'unit() of {nq_} quaternions returns {len(r)}', sig='Quaternion.unit(multi)')
                        if len(r) == nq_:
                            for k_ in range(nq_): L.close('Quaternion.unit(multi)', r[k_], rows_[k_] / np.linalg.norm(rows_[k_]), TOL, 1.0, dict(N=nq_, kind=kind_, k=k_), sig='Quaternion.unit(multi)')
        # ---- vectors / quaternions -----------------------------------------------------------------
        mag = 10.0 ** g.uniform(-6, 6)
        v = g.normal(size=3); v = v / np.linalg.norm(v) * mag
        ok, u = L.noraise('unitvec', lambda: b.unitvec(v), dict(v=v), 'unitvec(v)')
        if ok:
            if u is None: L.check('unitvec', False, dict(v=v), 'unitvec of a non-zero vector returned None', sig='unitvec:none')
            else:
                L.close('unitvec:unit', float(np.linalg.norm(u)), 1.0, TOL, 1.0, dict(v=v)); L.close('unitvec:direction', u * mag, v, TOL, mag, dict(v=v))
                L.close('unitvec:idempotent', b.unitvec(u), u, TOL, 1.0, dict(v=v))
        ok, un = L.noraise('unitvec_norm', lambda: b.unitvec_norm(v), dict(v=v), 'unitvec_norm(v)')
        if ok and un is not None:
            L.close('unitvec_norm:norm', un[1], mag, TOL, mag, dict(v=v)); L.close('unitvec_norm:unit', float(np.linalg.norm(un[0])), 1.0, TOL, 1.0, dict(v=v))
        q = g.normal(size=4); q = q / np.linalg.norm(q) * mag
        if i % 3 == 0:                      # nearly unit: norm error 1e-15 .. 1e-2 either side
            mag = 1.0 + float(g.choice([-1.0, 1.0])) * 10.0 ** g.uniform(-15, -2); q = q / np.linalg.norm(q) * mag
        ok, uq = L.noraise('q.unit', lambda: b.unit(q), dict(q=q), 'base.unit(q)')
        if ok:
            L.close('q.unit:unit', float(np.linalg.norm(uq)), 1.0, TOL, 1.0, dict(q=q)); L.close('q.unit:direction', uq * mag, q, TOL, mag, dict(q=q))
            L.close('q.unit:idempotent', b.unit(uq), uq, TOL, 1.0, dict(q=q))
        # … of a unit-quaternion object whose stored value has drifted (built without normalisation): unit again afterwards
        qd_ = q / mag * (1 + float(g.choice([-1, 1])) * 10.0 ** g.uniform(-10, -3))
        for fm_, mk_ in (('(s,v)', lambda: UnitQuaternion(qd_[0], qd_[1:], norm=False)), ('Nx4', lambda: UnitQuaternion(np.array([qd_, qd_]), norm=False))):
            ok, r = L.noraise(f'UnitQuaternion.unit(drifted {fm_})', lambda: np.asarray(mk_().unit().data[0], float), dict(q=qd_), 'unit() of a drifted UnitQuaternion')
            if ok:
                L.close('UnitQuaternion.unit(drifted):unit', float(np.linalg.norm(r)), 1.0, TOL, 1.0, dict(q=qd_, form=fm_), what='unit() of a UnitQuaternion whose stored value is not unit length does not return a unit quaternion', sig='UnitQuaternion.unit:drifted')
                L.close('UnitQuaternion.unit(drifted):direction', r * float(np.linalg.norm(qd_)), qd_, TOL, 1.0, dict(q=qd_, form=fm_), sig='UnitQuaternion.unit:drifted')
        ok, r = L.noraise('Quaternion.unit', lambda: Quaternion(q).unit(), dict(q=q), 'Quaternion.unit()')
        if ok:
            L.check('Quaternion.unit:class', type(r).__name__ == 'UnitQuaternion', dict(q=q), 'Quaternion.unit() is not a UnitQuaternion')
            L.close('Quaternion.unit', r.vec * mag, q, TOL, mag, dict(q=q))
        ok, r = L.noraise('UnitQuaternion(list)', lambda: UnitQuaternion(list(q)).vec, dict(q=q), 'UnitQuaternion(list) normalises')
        if ok: L.close('UnitQuaternion(list)', r * mag, q, TOL, mag, dict(q=q))
        ok, r = L.noraise('UnitQuaternion(s,v)', lambda: UnitQuaternion(q[0], q[1:]).vec, dict(q=q), 'UnitQuaternion(s, v) normalises')
        if ok: L.close('UnitQuaternion(s,v)', r * mag, q, TOL, mag, dict(q=q))
        if i % 4 == 0:
            Qm = g.normal(size=(int(g.integers(2, 5)), 4)) * 10.0 ** g.uniform(-3, 3)
            ok, Xq = L.noraise('UnitQuaternion(Nx4)', lambda: UnitQuaternion(Qm), dict(Q=Qm), 'UnitQuaternion(N x 4 array) normalises each row')
            if ok:
                rows_ = [np.asarray(a_, float) for a_ in Xq.data]
                L.check('UnitQuaternion(Nx4):len', len(rows_) == len(Qm), dict(Q=Qm), 'UnitQuaternion(N x 4) does not hold N values')
                if len(rows_) == len(Qm):
                    for a_, q_ in zip(rows_, Qm):
                        L.close('UnitQuaternion(Nx4):unit', float(np.linalg.norm(a_)), 1.0, TOL, 1.0, dict(Q=Qm), what='a row of UnitQuaternion(N x 4) is not a unit quaternion', sig='UnitQuaternion(Nx4)')
                        L.close('UnitQuaternion(Nx4):direction', a_ * np.linalg.norm(q_), q_, 1e-9, float(np.linalg.norm(q_)), dict(Q=Qm), sig='UnitQuaternion(Nx4)')
                    ok2, X2 = L.noraise('UnitQuaternion(Nx4):idempotent', lambda: UnitQuaternion(np.array(rows_)), dict(Q=Qm), 'UnitQuaternion of already unit rows')
                    if ok2:
                        for a_, b_ in zip(X2.data, rows_): L.close('UnitQuaternion(Nx4):idempotent', np.asarray(a_, float), b_, TOL, 1.0, dict(Q=Qm), sig='UnitQuaternion(Nx4)')
        ok, r = L.noraise('UnitQuaternion(array)', lambda: UnitQuaternion(q).vec, dict(q=q), 'UnitQuaternion(ndarray(4)) normalises', sig='UnitQuaternion(array):raises')
        if ok: L.close('UnitQuaternion(array)', r * mag, q, TOL, mag, dict(q=q))
        # ---- twists --------------------------------------------------------------------------------------
        r_ = g.random(); w = inputs.unit_axis(g)
        if r_ < 0.25: w = np.zeros(3)
        elif r_ < 0.4: w = w * 10.0 ** g.uniform(-16, -15.5)          # below the zero threshold (10 eps)
        elif r_ < 0.52: w = w * 10.0 ** g.uniform(-13.5, -8)           # small but clearly non-zero rotational part (with any translational part)
        else: w = w * 10.0 ** g.uniform(-6, 6)
        vv = g.normal(size=3) * 10.0 ** g.uniform(-6, 6)
        S = np.r_[vv, w]
        ok, us = L.noraise('unittwist', lambda: b.unittwist(S), dict(S=S), 'unittwist(S)')
        if ok and us is not None:
            nw = float(np.linalg.norm(us[3:]))
            if np.linalg.norm(w) > 100 * 2.2e-16:
                L.close('unittwist:unit-rotational-part', nw, 1.0, TOL, 1.0, dict(S=S)); L.close('unittwist:direction', us * np.linalg.norm(w), S, TOL, float(np.max(np.abs(S))), dict(S=S))
            elif np.linalg.norm(w) == 0:
                L.close('unittwist:unit-translational-part', float(np.linalg.norm(us[:3])), 1.0, TOL, 1.0, dict(S=S))
            else:       # rotational part below the zero threshold: either normalisation is a unit twist, nothing else is
                L.check('unittwist:unit-either', min(abs(nw - 1.0), abs(float(np.linalg.norm(us[:3])) - 1.0)) <= TOL, dict(S=S),
                        'unittwist of a twist with sub-threshold rotational part has neither unit rotational nor unit translational part')
            ok2, us2 = L.noraise('unittwist:idempotent', lambda: b.unittwist(us), dict(S=S), 'unittwist twice')
            if ok2 and us2 is not None and (np.linalg.norm(w) > 100 * 2.2e-16 or np.linalg.norm(w) == 0): L.close('unittwist:idempotent', us2, us, TOL, max(1.0, float(np.max(np.abs(us)))), dict(S=S))
            L.check('unittwist:isunittwist', bool(b.isunittwist(us, tol=100)) or not (np.linalg.norm(w) > 100 * 2.2e-16 or np.linalg.norm(w) == 0), dict(S=S), 'unittwist result is not a unit twist')
        # planar twists with a rotational part between the zero thresholds (10 and 100 eps): unittwist2 and unittwist2_norm agree
        for w2b in (float(g.choice([-1, 1])) * 10.0 ** g.uniform(-14.6, -13.7), float(g.choice([-1, 1])) * 10.0 ** g.uniform(-13, -8)):
            S2b = np.r_[vv[:2] / max(1e-300, np.linalg.norm(vv[:2])) * 10.0 ** g.uniform(-1, 1), w2b]
            ok, r = L.noraise('unittwist2(band)', lambda: (b.unittwist2(S2b), b.unittwist2_norm(S2b)), dict(S=S2b), 'unittwist2 / unittwist2_norm')
            if ok and r[0] is not None and r[1][0] is not None:
                L.close('unittwist2=unittwist2_norm', r[0], r[1][0], TOL, max(1.0, float(np.max(np.abs(r[1][0])))), dict(S=S2b), what='unittwist2 and unittwist2_norm normalise the same planar twist differently', sig='unittwist2:band')
                L.close('unittwist2:unit-rotation(band)', abs(float(r[0][2])), 1.0, TOL, 1.0, dict(S=S2b), sig='unittwist2:band')
        # a 4x4 matrix with noise in every entry (bottom row too): the normalised matrix is a rigid motion with exact last row
        Tn4 = inputs.se3(g, 1) + g.normal(size=(4, 4)) * 10.0 ** g.uniform(-11, -3)
        ok, r = L.noraise('trnorm(T, full noise)', lambda: b.trnorm(Tn4), dict(T=Tn4), 'trnorm of a 4x4 matrix with noise in all entries')
        if ok:
            r = np.asarray(r, float)
            L.check('trnorm(T):last-row', np.array_equal(r[3, :], [0.0, 0.0, 0.0, 1.0]), dict(T=Tn4), 'trnorm(T) does not restore the last row [0 0 0 1]', sig='trnorm:last-row', observed=r[3, :].tolist())
            L.close('trnorm(T):rotation', r[:3, :3] @ r[:3, :3].T, np.eye(3), TOL, 1.0, dict(T=Tn4), sig='trnorm:last-row'); L.close('trnorm(T):translation', r[:3, 3], Tn4[:3, 3], 1e-15, max(1.0, float(np.max(np.abs(Tn4[:3, 3])))), dict(T=Tn4), sig='trnorm:last-row')
        ok, r = L.noraise('SE3.norm(full noise)', lambda: SE3(Tn4, check=False).norm().A, dict(T=Tn4), 'SE3(T, check=False).norm()', sig='SE3.norm:raises')
        if ok: L.check('SE3.norm:last-row', np.array_equal(np.asarray(r, float)[3, :], [0.0, 0.0, 0.0, 1.0]), dict(T=Tn4), 'SE3.norm() does not restore the last row', sig='trnorm:last-row')
        # the normalising constructor normalises whatever check says (check is about validation, norm about scaling)
        for fn_, mk_ in (('array', lambda: UnitQuaternion(q, check=False)), ('list', lambda: UnitQuaternion(list(q), check=False)), ('list of arrays', lambda: UnitQuaternion([q, 2 * q], check=False))):
            ok, r = L.noraise(f'UnitQuaternion({fn_}, check=False)', lambda: [np.asarray(x_, float) for x_ in mk_().data], dict(q=q, form=fn_), f'UnitQuaternion({fn_}, check=False)', sig='UnitQuaternion(check=False):raises')
            if ok:
                for x_ in r: L.close('UnitQuaternion(check=False):unit', x_ * mag, q, TOL, mag, dict(q=q, form=fn_), what='UnitQuaternion(x, check=False) does not normalise x', sig='UnitQuaternion(check=False)')
        # the class property on twists of unit Euclidean length (|S| = 1 is not "unit twist": the rotational part must be unit)
        if np.linalg.norm(w) > 1e-6 and np.linalg.norm(vv) > 0:
            from spatialmath import Twist3 as Tw3_
            for Sx in (S / np.linalg.norm(S), np.r_[0.6, 0, 0, 0.8, 0, 0] * float(g.choice([-1, 1]))):
                ok, ru = L.noraise('Twist3.unit', lambda: np.asarray(Tw3_(Sx).unit().S if callable(getattr(Tw3_(Sx), 'unit')) else Tw3_(Sx).unit.S, float), dict(S=Sx), 'Twist3.unit', sig='Twist3.unit:raises')
                if ok:
                    L.close('Twist3.unit:unit-rotational-part', float(np.linalg.norm(ru[3:])), 1.0, TOL, 1.0, dict(S=Sx), what='Twist3.unit of a twist with |S| = 1 does not have a unit rotational part', sig='Twist3.unit')
                    L.close('Twist3.unit=unittwist', ru, b.unittwist(Sx), TOL, max(1.0, float(np.max(np.abs(ru)))), dict(S=Sx), sig='Twist3.unit')
        ok, r = L.noraise('unittwist_norm', lambda: b.unittwist_norm(S), dict(S=S), 'unittwist_norm')
        if ok and r[0] is not None and us is not None:
            L.close('unittwist_norm', r[0] * r[1], S, TOL, float(np.max(np.abs(S))), dict(S=S))
            if np.linalg.norm(w) > 100 * 2.2e-16 or np.linalg.norm(w) == 0:
                L.close('unittwist_norm=unittwist', r[0], us, TOL, max(1.0, float(np.max(np.abs(us)))), dict(S=S), what='unittwist_norm and unittwist normalise the same twist differently', sig='unittwist_norm')
            if np.linalg.norm(w) > 100 * 2.2e-16:
                L.close('unittwist_norm:unit-rotational-part', float(np.linalg.norm(r[0][3:])), 1.0, TOL, 1.0, dict(S=S), sig='unittwist_norm')
        w2 = 0.0 if g.random() < 0.3 else float(g.normal() * 10.0 ** g.uniform(-6, 6)); S2 = np.r_[vv[:2], w2]
        ok, r = L.noraise('unittwist2', lambda: b.unittwist2(S2), dict(S=S2), 'unittwist2')
        if ok and r is not None:
            if w2 != 0 and abs(w2) > 100 * 2.2e-16: L.close('unittwist2:unit-rotation', abs(r[2]), 1.0, TOL, 1.0, dict(S=S2))
            elif w2 == 0: L.close('unittwist2:unit-translation', float(np.linalg.norm(r[:2])), 1.0, TOL, 1.0, dict(S=S2))
            # direction kept: the unit twist is a POSITIVE multiple of S
            kpos = float(np.dot(r, S2))
            L.check('unittwist2:direction', kpos > 0 and np.allclose(np.asarray(r, float) * (np.linalg.norm(S2) / max(1e-300, np.linalg.norm(r))), S2, rtol=0, atol=1e-9 * float(np.max(np.abs(S2)))), dict(S=S2),
                    'unittwist2 does not keep the direction of the twist')
        ok, rn = L.noraise('unittwist2_norm', lambda: b.unittwist2_norm(S2), dict(S=S2), 'unittwist2_norm')
        if ok and rn is not None and rn[0] is not None:
            un_, nn_ = np.asarray(rn[0], float), float(rn[1])
            L.check('unittwist2_norm:positive', nn_ > 0, dict(S=S2), 'unittwist2_norm reports a non-positive norm for a non-zero twist', observed=nn_)
            L.close('unittwist2_norm:product', un_ * nn_, S2, 1e-9, float(np.max(np.abs(S2))), dict(S=S2), what='unit twist times reported norm is not the original twist')
            if (w2 != 0 and abs(w2) > 100 * 2.2e-16) or w2 == 0:
                ok3, r3 = L.noraise('unittwist2', lambda: b.unittwist2(S2), dict(S=S2), 'unittwist2')
                if ok3 and r3 is not None: L.close('unittwist2_norm=unittwist2', un_, r3, 1e-9, max(1.0, float(np.max(np.abs(r3)))), dict(S=S2), what='unittwist2_norm and unittwist2 disagree')
        # the class property on every kind of twist (irrotational, sub-threshold, ordinary): the same unit twist as the base function
        ok, r = L.noraise('Twist3.unit(any)', lambda: np.asarray(Twist3(S).unit.S, float), dict(S=S), 'Twist3.unit', sig='Twist3.unit:raises')
        if ok and us is not None:
            L.check('Twist3.unit:finite', bool(np.all(np.isfinite(r))), dict(S=S), 'Twist3.unit is not finite', observed=r, sig='Twist3.unit')
            if np.all(np.isfinite(r)): L.close('Twist3.unit=unittwist(any)', r, us, TOL, max(1.0, float(np.max(np.abs(us)))), dict(S=S), what='Twist3.unit differs from base.unittwist', sig='Twist3.unit')
        # the zero threshold is on the length (2-norm) of the rotational part: 10 eps; a rotational part spread over several components
        # just above it is rotational, just below it is not
        if i % 5 == 0:
            for fac_, rot_ in ((1.2, True), (1.6, True), (0.8, False), (0.5, False)):
                dsp = np.array([1.0, -1.0, 1.0]) if i % 10 == 0 else np.array([0.0, 1.0, -1.0])
                wsp = dsp / np.linalg.norm(dsp) * fac_ * 10 * np.finfo(float).eps; Ssp = np.r_[vv if np.linalg.norm(vv) > 0 else [1.0, 0, 0], wsp]
                ok, r = L.noraise('unittwist(threshold)', lambda: (b.unittwist(Ssp), b.unittwist_norm(Ssp)[0], np.asarray(Twist3(Ssp).unit.S, float)), dict(S=Ssp), 'unittwist near the zero threshold')
                if ok and all(x_ is not None for x_ in r):
                    for nm_, u_ in zip(('unittwist', 'unittwist_norm', 'Twist3.unit'), r):
                        part_ = float(np.linalg.norm(u_[3:])) if rot_ else float(np.linalg.norm(u_[:3]))
                        L.close(f'{nm_}:threshold({fac_})', part_, 1.0, 1e-9, 1.0, dict(S=Ssp, rotational=rot_), what=f'{nm_}: a twist whose rotational part has length {fac_} x 10 eps is normalised as if it were {"irrotational" if rot_ else "rotational"}', sig='unittwist:threshold')
        if i % 4 == 0 and np.linalg.norm(w) > 1e-6:
            ok, r = L.noraise('Twist3.unit', lambda: Twist3(S).unit.S, dict(S=S), 'Twist3.unit')
            if ok: L.close('Twist3.unit:unit-rotational-part', float(np.linalg.norm(np.asarray(r)[3:])), 1.0, TOL, 1.0, dict(S=S), what='Twist3.unit does not have a unit rotational part', sig='Twist3.unit')
            ok, r = L.noraise('Twist2.unit', lambda: Twist2(S2).unit.S, dict(S=S2), 'Twist2.unit', sig='Twist2.unit:raises')
            if ok and w2 != 0: L.close('Twist2.unit', abs(np.asarray(r)[2]), 1.0, TOL, 1.0, dict(S=S2))
        # ---- angle wrapping ------------------------------------------------------------------------------
        r_ = g.random()
        a = float(g.integers(-300, 301)) * PI if r_ < 0.3 else float(g.uniform(-1e3, 1e3))
        c = float(g.integers(-300, 301)) * PI / 2 if g.random() < 0.3 else float(g.uniform(-1e3, 1e3))
        for law, val, arg in (('angdiff(a)', lambda: b.angdiff(a), a), ('angdiff(a,b)', lambda: b.angdiff(a, c), a - c)):
            ok, r = L.noraise(law, val, dict(a=a, b=c), law)
            if ok:
                L.check(f'{law}:range', -PI - 1e-12 <= r <= PI + 1e-12, dict(a=a, b=c), f'{law} outside [-pi, pi]', observed=r)
                k = (arg - r) / (2 * PI)
                L.check(f'{law}:congruent', abs(k - round(k)) <= 1e-12 * max(1.0, abs(arg)), dict(a=a, b=c), f'{law} is not congruent to its argument modulo 2 pi', observed=r)
    # round 11: UnitQuaternion(s, v) normalises its argument by default, with check=True or check=False alike (norm=False stores as given)
    for s_, v_ in ((3.0, [0.0, 4.0, 0.0]), (1e-6, [0.0, 0.0, 0.0]), (1.0 + 1e-9, [0.0, 0.0, 0.0]), (0.5, [0.5, -0.5, 0.5000001]), (-2.0, [1.0, 1.0, 1.0])):
        q_ = np.r_[s_, v_]; want_ = q_ / np.linalg.norm(q_); inp_ = dict(s=s_, v=v_)
        for ck_ in (True, False):
            ok, r = L.noraise(f'UnitQuaternion(s, v, check={ck_})', lambda: UnitQuaternion(s_, v_, check=ck_).vec, dict(inp_, check=ck_), 'UnitQuaternion(s, v)', sig='UQ(s,v):raises')
            if ok: L.close(f'UnitQuaternion(s, v, check={ck_})', np.asarray(r, float), want_, 1e-15, 1.0, dict(inp_, check=ck_), what='UnitQuaternion(s, v) does not hold the normalised quaternion', sig=f'UQ(s,v):normalised:check={ck_}')
    return L.result()

if __name__ == '__main__':
    main_entry(_impl)
