"""C19 — Plücker lines: incidence, projection and rigid transformation are consistent (float monitor)."""
import math
import numpy as np
from .common import Laws, run_subprocess, main_entry
from .. import inputs
from . import geom

SPEC = dict(
    technique='Lean 4 proof (incidence, projection, common perpendicular, plane intersection; regenerated model) + float monitor',
    lean_modules=['SmVerif.Props.C19'],
    groups=['Plucker'],
    partial=['polynomial / rational identities of the traced constructors and accessors are proved; predicates with absolute tolerances '
             '(contains, ==, isparallel) are explored'],
    assumptions=['agreement 1e-9 relative to the data magnitude on generated inputs only'],
)

def monitor(tier, seed, search=False):
    return run_subprocess('smv.props.c19', tier, seed, search)

def replay(rp):
    r = run_subprocess('smv.props.c19', 'quick', 0, True)
    hit = [v for v in r['violations'] if v['signature'] == rp.get('signature')]
    return dict(violates=bool(hit), detail=hit[:1])

def _impl(tier, seed, search):
    import spatialmath.base as b
    from spatialmath import SE3
    from spatialmath.geom3d import Plucker, Plane
    g = inputs.rng(seed)
    n = 150 if tier == 'quick' else 3000
    if search: n *= 3
    TOL = 1e-9
    L = Laws('C19', rule='point pairs at least 1e-3 apart with coordinates up to 1e3, directions with length 1e-3..1e3, all rigid motions, query points, '
                         'line pairs in general / parallel / intersecting / coincident position, planes not parallel to the line; a case = one geometric check')
    def pt(g):
        return np.clip(g.normal(size=3) * 10.0 ** g.uniform(-2, 3), -1e3, 1e3)
    def dist_to_line(x, P, d):
        d = d / np.linalg.norm(d); return float(np.linalg.norm(np.cross(x - P, d)))
    for i in range(n):
        P, Q = pt(g), pt(g)
        if np.linalg.norm(P - Q) < 1e-3: continue
        sc = max(1.0, float(np.max(np.abs(np.r_[P, Q]))))
        d = (P - Q)
        inp = dict(P=P, Q=Q)
        ok, l = L.noraise('PQ', lambda: Plucker.PQ(P, Q), inp, 'Plucker.PQ')
        if not ok: continue
        v, w = np.asarray(l.v, float), np.asarray(l.w, float)
        L.close('PQ:plucker-constraint', float(np.dot(v, w)), 0.0, TOL, sc * sc * max(1.0, float(np.linalg.norm(d))), inp, what='moment is not orthogonal to direction')
        L.close('PQ:direction', np.cross(w, d), np.zeros(3), TOL, sc * sc, inp)
        # incidence measured independently (distance of the defining points from the line {pp + lam uw})
        ok2, r = L.noraise('pp', lambda: (np.asarray(l.pp, float), np.asarray(l.uw, float)), inp, 'pp / uw')
        if ok2:
            pp, uw = r
            L.close('PQ:contains-P', dist_to_line(P, pp, uw), 0.0, TOL, sc, inp, what='line built from P, Q does not pass through P'); L.close('PQ:contains-Q', dist_to_line(Q, pp, uw), 0.0, TOL, sc, inp)
            L.close('pp:perpendicular', float(np.dot(pp, uw)), 0.0, TOL, sc, inp, what='principal point is not the foot of the perpendicular from the origin')
            L.close('pp:on-line', dist_to_line(pp, P, d), 0.0, TOL, sc, inp)
            ok3, r3 = L.noraise('ppd', lambda: l.ppd, inp, 'ppd')
            if ok3: L.close('ppd', float(r3), float(np.linalg.norm(pp)), TOL, sc, inp)
            lam = float(g.normal() * 10)
            # defining data in single precision: the line is the double-precision line through the values given
            if i % 5 == 2:
                P32, Q32 = P.astype(np.float32), Q.astype(np.float32); P64, Q64 = P32.astype(float), Q32.astype(float)
                if np.linalg.norm(Q64 - P64) > 1e-3 * max(1.0, sc):
                    for nm_, mk_ in (('PQ', lambda: Plucker.PQ(P32, Q32)), ('PointDir', lambda: Plucker.PointDir(P32, (Q64 - P64).astype(np.float32)))):
                        ok3, l32 = L.noraise(f'{nm_}(float32)', lambda: (lambda l_: (np.asarray(l_.pp, float), np.asarray(l_.uw, float), np.asarray(l_.v, float), np.asarray(l_.w, float)))(mk_()), dict(P=P64, Q=Q64), f'Plucker.{nm_} from float32 arrays')
                        if ok3:
                            L.close(f'{nm_}(float32):contains-P', dist_to_line(P64, l32[0], l32[1]), 0.0, TOL * 10, sc, dict(P=P64, Q=Q64), what=f'a line built by {nm_} from float32 points does not pass through the first point', sig='float32-points')
                            if nm_ == 'PQ': L.close('PQ(float32):contains-Q', dist_to_line(Q64, l32[0], l32[1]), 0.0, TOL * 10, sc, dict(P=P64, Q=Q64), sig='float32-points')
                            L.close(f'{nm_}(float32):plucker-constraint', float(np.dot(l32[2], l32[3])), 0.0, TOL * 10, sc * sc * max(1.0, float(np.linalg.norm(Q64 - P64))), dict(P=P64, Q=Q64), sig='float32-points')
            # the line against a box it pierces: hit points in the order of their parameters, each one point(lam) and on the boundary of the box
            if i % 4 == 1:
                half_ = sc * 2.0 + 1.0; cen_ = P + d * 0.37; bounds_ = np.array([cen_[0] - half_, cen_[0] + half_, cen_[1] - half_ * 1.5, cen_[1] + half_ * 1.5, cen_[2] - half_ * 0.7, cen_[2] + half_ * 0.7])
                for sgn_ in (1.0, -1.0):
                    lq = Plucker.PQ(P, Q) if sgn_ > 0 else Plucker.PQ(Q, P)
                    ok3, rv = L.noraise('intersect_volume', lambda: (lambda r_: (np.asarray(r_.p, float), np.asarray(r_.lam, float), [np.asarray(lq.point(x_), float).flatten() for x_ in r_.lam]))(lq.intersect_volume(bounds_.copy())), dict(inp, bounds=bounds_), 'intersect_volume')
                    if ok3: L.check('intersect_volume:two-hits', rv[0].ndim == 2 and rv[0].shape[1] == 2 and len(rv[1]) == 2, dict(inp, bounds=bounds_), f'a line through the middle of a box pierces it twice; intersect_volume reports {len(rv[1])} point(s)', sig='intersect_volume')
                    if ok3 and rv[0].ndim == 2 and rv[0].shape[1] == len(rv[1]) == 2:
                        L.check('intersect_volume:ordered', rv[1][0] <= rv[1][1], dict(inp, bounds=bounds_), 'intersect_volume: parameters not in ascending order', sig='intersect_volume')
                        for k_ in range(2):
                            L.close('intersect_volume:p=point(lam)', rv[0][:, k_], rv[2][k_], TOL, max(sc, half_ * 2), dict(inp, bounds=bounds_, k=k_), what='column k of intersect_volume().p is not point(lam[k])', sig='intersect_volume')
                            L.close('intersect_volume:on-line', dist_to_line(rv[0][:, k_], P, d), 0.0, TOL, max(sc, half_ * 2), dict(inp, bounds=bounds_, k=k_), sig='intersect_volume')
            # several parameters at once: column k is point(lam_k)
            lams_ = [0.0, lam, -1.0, 2.5][: 2 + i % 3]
            ok3, r3 = L.noraise('point(vector)', lambda: (np.asarray(l.point(lams_), float), [np.asarray(l.point(x_), float).flatten() for x_ in lams_], np.asarray(l.point(np.array(lams_)), float)), dict(inp, lam=lams_), 'point(vector of lambda)')
            if ok3:
                L.check('point(vector):shape', r3[0].shape == (3, len(lams_)) and r3[2].shape == (3, len(lams_)), dict(inp, lam=lams_), f'point() of {len(lams_)} parameters has shape {r3[0].shape}', sig='point(vector)')
                if r3[0].shape == (3, len(lams_)) and r3[2].shape == (3, len(lams_)):
                    for k_ in range(len(lams_)):
                        L.close('point(vector)', r3[0][:, k_], r3[1][k_], TOL, max(sc, float(np.max(np.abs(r3[1][k_])))), dict(inp, lam=lams_, k=k_), what='column k of point(vector) is not point(lam_k)', sig='point(vector)')
                        L.close('point(array)', r3[2][:, k_], r3[1][k_], TOL, max(sc, float(np.max(np.abs(r3[1][k_])))), dict(inp, lam=lams_, k=k_), sig='point(vector)')
            ok3, r3 = L.noraise('point', lambda: np.asarray(l.point(lam), float).flatten(), dict(inp, lam=lam), 'point(lambda)')
            if ok3:
                L.close('point:on-line', dist_to_line(r3, P, d), 0.0, TOL, max(sc, abs(lam)), dict(inp, lam=lam)); L.close('point:parameter', r3, pp + lam * uw, TOL, max(sc, abs(lam)), dict(inp, lam=lam))
                ok4, c = L.noraise('contains(point)', lambda: l.contains(r3), dict(inp, lam=lam), 'contains(point(lambda))')
            # library predicate on the defining points (absolute tolerance inside the library: only moderate data)
            # library predicate with the property's tolerance (1e-9 relative to the data magnitude; |w| scales the residual)
            tolc = 1e-9 * sc * max(1.0, float(np.linalg.norm(w)))
            ok3, c = L.noraise('contains', lambda: (l.contains(P, tol=tolc), l.contains(Q, tol=tolc)), inp, 'contains(P)')
            if ok3: L.check('contains:defining-points', bool(c[0]) and bool(c[1]), inp, 'contains() is False for a defining point')
            far = P + np.cross(d / np.linalg.norm(d), inputs.unit_axis(g)) * sc
            if dist_to_line(far, P, d) > 1e-3 * sc:
                ok3, c = L.noraise('contains-far', lambda: l.contains(far, tol=tolc), inp, 'contains(far point)')
                if ok3: L.check('contains:rejects-far-point', not bool(c), dict(inp, x=far), 'contains() is True for a point far from the line')
            # the 3xN form of contains(): one answer per column, the same as the single-point form
            Xm = np.stack([P, Q, far, P + 0.5 * (Q - P)], axis=1)
            ok3, c = L.noraise('contains(3xN)', lambda: (np.ravel(np.asarray(l.contains(Xm, tol=tolc))), [bool(l.contains(Xm[:, k_], tol=tolc)) for k_ in range(4)]), inp, 'contains(3xN array)')
            if ok3 and dist_to_line(far, P, d) > 1e-3 * sc:
                L.check('contains(3xN)', len(c[0]) == 4 and [bool(v_) for v_ in c[0]] == c[1] and c[1] == [True, True, False, True], dict(inp, X=Xm),
                        'contains() on a 3xN array disagrees with the single-point form / with the geometry', observed=[list(map(bool, c[0])), c[1]], sig='contains:3xN')
            x = pt(g)
            ok3, c = L.noraise('closest', lambda: l.closest(x), dict(inp, x=x), 'closest(x)')
            if ok3:
                cp = np.asarray(c.p, float); scx = max(sc, float(np.max(np.abs(x))))
                L.close('closest:on-line', dist_to_line(cp, P, d), 0.0, TOL, scx, dict(inp, x=x)); L.close('closest:orthogonal', float(np.dot(x - cp, uw)), 0.0, TOL, scx, dict(inp, x=x))
                L.close('closest:distance', float(c.d), dist_to_line(x, P, d), TOL, scx, dict(inp, x=x)); L.close('closest:parameter', pp + float(c.lam) * uw, cp, TOL, scx, dict(inp, x=x))
            # query points on (or within 1e-7 of) the line, far from the principal point: the reported distance is |x - closest point|
            for xq, dq in ((P, 0.0), (Q, 0.0), (P + 700.0 * uw, 0.0), (P + float(g.uniform(-50, 50)) * uw + np.cross(uw, inputs.unit_axis(g)) * 1e-7, None)):
                ok3, c = L.noraise('closest(on line)', lambda: l.closest(xq), dict(inp, x=xq), 'closest(x) for x on the line')
                if ok3:
                    scq = max(sc, float(np.max(np.abs(xq)))); cpq = np.asarray(c.p, float)
                    L.close('closest(on line):distance', float(c.d), float(np.linalg.norm(xq - cpq)), TOL, scq, dict(inp, x=xq), what='closest(x).d is not the distance from x to the returned point', sig='closest:distance')
                    if dq is not None: L.close('closest(on line):zero', float(c.d), dq, TOL, scq, dict(inp, x=xq), what='closest(x).d is not 0 (relative to the data magnitude) for a point of the line', sig='closest:distance')
        # point-direction constructor
        dd = geom.axis_scaled(g); dd = dd / np.linalg.norm(dd) * 10.0 ** g.uniform(-3, 3)
        ok2, l2 = L.noraise('PointDir', lambda: Plucker.PointDir(P, dd), dict(P=P, dir=dd), 'Plucker.PointDir')
        if ok2:
            L.close('PointDir:constraint', float(np.dot(l2.v, l2.w)), 0.0, TOL, sc * float(np.linalg.norm(dd)) ** 2, dict(P=P, dir=dd))
            L.close('PointDir:contains-P', dist_to_line(P, np.asarray(l2.pp, float), np.asarray(l2.uw, float)), 0.0, TOL, sc, dict(P=P, dir=dd)); L.close('PointDir:direction', np.cross(l2.w, dd), np.zeros(3), TOL, float(np.dot(dd, dd)), dict(P=P, dir=dd))
        # two planes
        n1, n2 = inputs.unit_axis(g), inputs.unit_axis(g)
        if np.linalg.norm(np.cross(n1, n2)) > 0.1:
            p1, p2 = pt(g) / 10, pt(g) / 10
            pl1, pl2 = np.r_[n1, -np.dot(n1, p1)], np.r_[n2, -np.dot(n2, p2)]      # n.x + d = 0
            ok2, l3 = L.noraise('Planes', lambda: Plucker.Planes(pl1, pl2), dict(pi1=pl1, pi2=pl2), 'Plucker.Planes')
            if ok2:
                pp3 = np.asarray(l3.pp, float); s3 = max(1.0, float(np.max(np.abs(np.r_[p1, p2]))))
                L.close('Planes:constraint', float(np.dot(l3.v, l3.w)), 0.0, TOL, s3, dict(pi1=pl1, pi2=pl2))
                L.close('Planes:on-plane-1', float(np.dot(n1, pp3) + pl1[3]), 0.0, TOL, s3, dict(pi1=pl1, pi2=pl2), what='line of two planes does not lie in the first plane')
                L.close('Planes:on-plane-2', float(np.dot(n2, pp3) + pl2[3]), 0.0, TOL, s3, dict(pi1=pl1, pi2=pl2)); L.close('Planes:direction', np.cross(l3.w, np.cross(n1, n2)), np.zeros(3), TOL, 1.0, dict(pi1=pl1, pi2=pl2))
        # rigid transformation: line through the transformed points
        T = inputs.se3(g, 2); X = SE3(T, check=False)
        ok2, lt = L.noraise('SE3*line', lambda: X * l, dict(inp, T=T), 'SE3 * Plucker')
        if ok2:
            P2, Q2 = T[:3, :3] @ P + T[:3, 3], T[:3, :3] @ Q + T[:3, 3]
            st = max(sc, geom.tmag(T))
            ppt, uwt = np.asarray(lt.pp, float), np.asarray(lt.uw, float)
            L.close('SE3*line:contains-TP', dist_to_line(P2, ppt, uwt), 0.0, TOL, st, dict(inp, T=T), what='transformed line does not pass through the transformed point'); L.close('SE3*line:contains-TQ', dist_to_line(Q2, ppt, uwt), 0.0, TOL, st, dict(inp, T=T))
            L.close('SE3*line:orientation', uwt, (P2 - Q2) / np.linalg.norm(P2 - Q2), TOL, 1.0, dict(inp, T=T))
        # equality under positive rescaling; parallelism
        k = 10.0 ** g.uniform(-1, 1)
        ok2, c = L.noraise('==', lambda: (l == Plucker(np.r_[v, w] * k), l == Plucker(np.r_[v, w] * -k), l != Plucker(np.r_[v, w] * k)), inp, 'Plucker ==')
        if ok2:
            L.check('==:positive-rescale', bool(c[0]) and not bool(c[2]), inp, 'the same oriented line under positive rescaling does not compare equal'); L.check('==:orientation', not bool(c[1]), inp, 'oppositely oriented line compares equal')
        # parallel lines given with long direction vectors of different length (both 30 .. 1e3): parallel, and the distance is the offset
        if sc <= 100:
            ud_ = d / np.linalg.norm(d); offL = np.cross(ud_, inputs.unit_axis(g))
            if np.linalg.norm(offL) > 0.3:
                offL = offL / np.linalg.norm(offL) * float(g.uniform(0.5, 10)); k1_ = 10.0 ** g.uniform(1.5, 3); k2_ = k1_ * float(g.uniform(1.5, 3.5)) * float(g.choice([-1, 1]))
                la_, lb_ = Plucker.PointDir(P, ud_ * k1_), Plucker.PointDir(P + offL, ud_ * k2_)
                linp = dict(P=P, direction=ud_, k1=k1_, k2=k2_, offset=offL)
                ok2, c = L.noraise('isparallel(long directions)', lambda: (la_.isparallel(lb_), lb_.isparallel(la_), la_.distance(lb_), lb_.distance(la_)), linp, 'isparallel / distance with long direction vectors')
                if ok2:
                    L.check('isparallel(long)', bool(c[0]) and bool(c[1]), linp, 'parallel lines with long direction vectors are not reported parallel', sig='isparallel:long')
                    L.close('distance-parallel(long)', [float(c[2]), float(c[3])], [float(np.linalg.norm(offL))] * 2, TOL, max(sc, 10.0), linp, what='distance between parallel lines with long direction vectors is not their separation', sig='isparallel:long')
        # skew lines whose directions differ by a very small angle (1e-9 .. 5e-8 rad) are not parallel: | says so, the distance is the one
        # along the common normal, and a common perpendicular exists
        if i < 8:
            ang_ = (1e-9, 3e-9, 1e-8, 5e-8)[i % 4]; d1_ = np.array([1.0, 2.0, 2.0]) / 3.0 * (1.0 if i < 4 else 5.0); perp_ = np.array([2.0, -1.0, 0.0]) / math.sqrt(5.0); d2_ = d1_ / np.linalg.norm(d1_) + ang_ * perp_
            nrm_ = np.cross(d1_, d2_); nrm_ = nrm_ / np.linalg.norm(nrm_); P1_ = np.array([1.0, -2.0, 0.5]); P2_ = P1_ + 20.0 * nrm_ + 3.0 * d1_
            la_ = Plucker.PointDir(P1_, d1_); lb_ = Plucker.PointDir(P2_, d2_); sinp = dict(angle=ang_, P1=P1_, P2=P2_)
            ok2, c = L.noraise('nearly-parallel skew lines', lambda: (la_ | lb_, la_.isparallel(lb_), la_.distance(lb_), lb_.distance(la_), la_.commonperp(lb_)), sinp, 'isparallel / distance / commonperp of skew lines at a tiny angle', sig='nearly-parallel:raises')
            if ok2:
                L.check('nearly-parallel:not-parallel', (not bool(c[0])) and not bool(c[1]), sinp, f'two lines whose directions differ by {ang_:g} rad (well above the 10 eps tolerance) are reported parallel', sig='isparallel:small-angle')
                L.close('nearly-parallel:distance', [float(c[2]), float(c[3])], [20.0, 20.0], 1e-6, 20.0, sinp, what='distance between skew lines at a tiny angle is not the separation along their common normal', sig='isparallel:small-angle')
                L.check('nearly-parallel:commonperp', c[4] is not None, sinp, 'no common perpendicular is returned for skew lines at a tiny angle', sig='isparallel:small-angle')
        # short direction vectors and a line passing 1e-6 .. 1e-5 from the origin (every moment component at or below 1e-8): the principal
        # point, point(lam) and closest() are still on the line
        if 8 <= i < 16:
            dl_ = inputs.unit_axis(g) * 10.0 ** g.uniform(-3, -2); off_ = np.cross(dl_ / np.linalg.norm(dl_), inputs.unit_axis(g)); off_ = off_ if np.linalg.norm(off_) > 0.1 else np.cross(dl_ / np.linalg.norm(dl_), np.eye(3)[int(np.argmin(np.abs(dl_)))]); off_ = off_ / np.linalg.norm(off_) * 10.0 ** g.uniform(-6, -5)
            Pn_ = off_ + dl_ * 40.0; ln_ = Plucker.PointDir(Pn_, dl_); ninp = dict(P=Pn_, dir=dl_)
            ok2, c = L.noraise('line near the origin, short direction', lambda: (np.asarray(ln_.pp, float), float(ln_.ppd), np.asarray(ln_.point(3.0), float).flatten(), np.asarray(ln_.closest(Pn_).p, float).flatten()), ninp, 'pp / ppd / point / closest of a line passing close to the origin')
            if ok2:
                scn_ = float(np.max(np.abs(Pn_)))
                L.close('pp(near origin)', c[0], off_, 1e-7, scn_, ninp, what='the principal point of a line passing close to the origin is not its point closest to the origin', sig='pp:near-origin'); L.close('ppd(near origin)', c[1], float(np.linalg.norm(off_)), 1e-7, scn_, ninp, sig='pp:near-origin')
                L.close('point(near origin):on-line', dist_to_line(c[2], Pn_, dl_), 0.0, 1e-7, scn_, ninp, sig='pp:near-origin'); L.close('closest(P)=P(near origin)', c[3], Pn_, 1e-7, scn_, ninp, sig='pp:near-origin')
        # fixed far-away lines (coordinates 30 .. 1000, every Pluecker coordinate large) and parallel copies shifted sideways by 1e-6 .. 1e-5 of
        # the data magnitude: different lines (a relative tolerance of 1e-5 on the coordinates would call them equal)
        if i < 6:
            scf = (30.0, 300.0, 1000.0)[i % 3]; Pf = np.array([1.0, 2.5, -3.0]) * scf; df = np.array([2.0, -1.0, 2.0]) / 3.0 * (1.0 if i < 3 else 7.0); shd = np.cross(df, [0.0, 0.0, 1.0]); shd = shd / np.linalg.norm(shd)
            for rel_ in (1e-6, 3e-6, 1e-5):
                shf = shd * scf * rel_; lf = Plucker.PQ(Pf, Pf + df * 5); finp = dict(P=Pf, dir=df, shift=shf)
                ok2, c = L.noraise('==(far line, shifted)', lambda: (lf == Plucker.PQ(Pf + shf, Pf + shf + df * 5), lf != Plucker.PQ(Pf + shf, Pf + shf + df * 5), lf == Plucker.PointDir(Pf + shf, df * 2), lf == Plucker.PQ(Pf + df, Pf + df * 3)), finp, 'Plucker == on far-away lines')
                if ok2:
                    L.check('==:shifted-copy(far)', (not bool(c[0])) and bool(c[1]) and not bool(c[2]), finp, f'a line {scf:g} from the origin and a parallel copy shifted sideways by {rel_:g} of that distance compare equal', sig='==:shifted')
                    for dg_ in (np.array([0.36, 0.48, 0.8]), np.array([1.0, 2.0, 3.0]) / math.sqrt(14.0)):
                        for (s1_, s2_, s3_, s4_) in ((10.0, 11.0, -7.0, 3.0), (10.0, 11.0, -7.0, 3.3), (100.0, 101.5, -50.0, 0.0)):
                            Pg_ = np.array([0.3, 0.7, -1.1]) * (scf / 30.0)
                            try: eqg_ = (Plucker.PQ(Pg_ + s1_ * dg_, Pg_ + s2_ * dg_) == Plucker.PQ(Pg_ + s3_ * dg_, Pg_ + s4_ * dg_))
                            except Exception: eqg_ = None
                            L.check('==:same-line(generic direction)', eqg_ is not None and bool(eqg_), dict(P=Pg_, dir=dg_, params=[s1_, s2_, s3_, s4_]), 'the same line built from two other point pairs far along it does not compare equal', sig='==:shifted')
                    L.check('==:same-line(far)', bool(c[3]), finp, 'the same far-away line built from other points / a rescaled direction does not compare equal', sig='==:shifted')
        # a parallel copy shifted sideways by 1e-4 .. 1e-2 of the data magnitude is a different line
        sh_ = np.cross(d / np.linalg.norm(d), inputs.unit_axis(g))
        if np.linalg.norm(sh_) > 0.3:
            sh_ = sh_ / np.linalg.norm(sh_) * max(sc, 1.0) * 10.0 ** g.uniform(-4, -2)
            ok2, c = L.noraise('==(shifted)', lambda: (l == Plucker.PQ(P + sh_, Q + sh_), l != Plucker.PQ(P + sh_, Q + sh_)), dict(inp, shift=sh_), 'Plucker == on a shifted parallel copy')
            if ok2: L.check('==:shifted-copy', (not bool(c[0])) and bool(c[1]), dict(inp, shift=sh_), 'a line and a parallel copy shifted sideways compare equal', sig='==:shifted')
            sh2_ = sh_ / np.linalg.norm(sh_) * max(sc, 1.0) * 10.0 ** g.uniform(-5.6, -5.2)      # a few 1e-6 of the data magnitude: still far above 1e-9
            ok2, c = L.noraise('==(shifted, small)', lambda: (l == Plucker.PQ(P + sh2_, Q + sh2_), l != Plucker.PQ(P + sh2_, Q + sh2_)), dict(inp, shift=sh2_), 'Plucker == on a slightly shifted parallel copy')
            if ok2 and sc <= 3: L.check('==:shifted-copy(small)', (not bool(c[0])) and bool(c[1]), dict(inp, shift=sh2_),     # (lines near the origin: the test's radial resolution falls with |moment| / |direction|)
                                          'a line and a parallel copy shifted sideways by a few 1e-6 of the data magnitude compare equal', sig='==:shifted')
        off = np.cross(d / np.linalg.norm(d), inputs.unit_axis(g)) * float(g.uniform(0.5, 3))
        if np.linalg.norm(off) > 0.1 and sc <= 100:
            lp = Plucker.PQ(P + off, Q + off)
            ok2, c = L.noraise('isparallel', lambda: (l.isparallel(lp), l | lp), dict(inp, offset=off), 'isparallel')
            if ok2 and sc <= 3 and np.linalg.norm(d) <= 3: L.check('isparallel', bool(c[0]) and bool(c[1]), dict(inp, offset=off), 'parallel lines are not reported parallel (small data)')
            # the parallel line with its direction rescaled (also reversed): same geometric line, same distance, both orders
            for kd in (float(g.uniform(0.2, 5.0)), -float(g.uniform(0.2, 5.0))):
                lk = Plucker.PointDir(P + off, d * kd)
                for la, lb, tag in ((l, lk, 'ab'), (lk, l, 'ba')):
                    ok3, c3 = L.noraise('distance-parallel-scaled', lambda: la.distance(lb), dict(inp, offset=off, k=kd), 'distance between parallel lines (rescaled direction)')
                    if ok3 and sc <= 3 and np.linalg.norm(d) <= 3:
                        L.close('distance-parallel-scaled', float(np.linalg.norm(c3)) if np.ndim(c3) else float(c3), dist_to_line(P + off, P, d), TOL, sc, dict(inp, offset=off, k=kd),
                                what='distance between parallel lines depends on the scaling of a direction vector', sig='distance-parallel:scaled')
            ok2, c = L.noraise('distance-parallel', lambda: l.distance(lp), dict(inp, offset=off), 'distance between parallel lines', sig='distance-parallel:raises')
            if ok2 and sc <= 3 and np.linalg.norm(d) <= 3: L.close('distance-parallel', float(np.linalg.norm(c)) if np.ndim(c) else float(c), dist_to_line(P + off, P, d), TOL, sc, dict(inp, offset=off))
        # general (skew) pair
        A, B = pt(g), pt(g)
        if np.linalg.norm(A - B) > 1e-3:
            e = A - B
            nrm = np.cross(d, e)
            if np.linalg.norm(nrm) > 1e-3 * np.linalg.norm(d) * np.linalg.norm(e):
                lm = Plucker.PQ(A, B); true_dist = abs(float(np.dot(P - A, nrm))) / float(np.linalg.norm(nrm))
                s2 = max(sc, float(np.max(np.abs(np.r_[A, B]))))
                pinp = dict(P=P, Q=Q, A=A, B=B)
                ok2, c = L.noraise('distance', lambda: l.distance(lm), pinp, 'line-line distance')
                if ok2: L.close('distance-skew', float(c), true_dist, TOL, s2, pinp, what='line-line distance disagrees with elementary geometry', sig='distance-skew')
                ok2, cpn = L.noraise('commonperp', lambda: l.commonperp(lm), pinp, 'commonperp')
                if ok2 and cpn is not None:
                    cw = np.asarray(cpn.w, float)
                    L.close('commonperp:orthogonal', [float(np.dot(cw, d)) / (np.linalg.norm(cw) * np.linalg.norm(d)), float(np.dot(cw, e)) / (np.linalg.norm(cw) * np.linalg.norm(e))], [0.0, 0.0], TOL, 1.0, pinp)
                    cv = np.asarray(cpn.v, float)
                    # the result must itself be a line: its moment is orthogonal to its direction
                    L.close('commonperp:pluecker', float(np.dot(cv, cw)) / max(1e-300, float(np.linalg.norm(cw)) ** 2), 0.0, TOL, s2, pinp,
                            what='the common perpendicular returned is not a line: its moment is not orthogonal to its direction', sig='commonperp:pluecker')
                    cpp, cuw = np.asarray(cpn.pp, float), np.asarray(cpn.uw, float)
                    # meets both lines: distance between the common perpendicular and each line is zero
                    def ll_dist(p1, d1, p2, d2):
                        nn = np.cross(d1, d2); return abs(float(np.dot(p1 - p2, nn))) / float(np.linalg.norm(nn))
                    L.close('commonperp:meets-both', [ll_dist(cpp, cuw, P, d / np.linalg.norm(d)), ll_dist(cpp, cuw, A, e / np.linalg.norm(e))], [0.0, 0.0], TOL, s2, pinp, what='common perpendicular does not meet both lines')
        # intersecting pair: distance 0
        lam1 = float(g.uniform(-2, 2)); C = P + lam1 * d; D = pt(g)
        if np.linalg.norm(np.cross(d, D - C)) > 1e-2 * np.linalg.norm(d) * max(1e-9, np.linalg.norm(D - C)) and sc <= 3:
            li = Plucker.PQ(C, D)
            ok2, c = L.noraise('distance-intersecting', lambda: l.distance(li), dict(P=P, Q=Q, C=C, D=D), 'distance of intersecting lines')
            if ok2: L.close('distance-intersecting', float(c), 0.0, 1e-6, max(sc, float(np.max(np.abs(D)))), dict(P=P, Q=Q, C=C, D=D))
        # line-plane intersection
        npl = inputs.unit_axis(g); p0 = pt(g) / 10
        if abs(np.dot(npl, d / np.linalg.norm(d))) > 0.05:
            plane = Plane.PN(p0, npl)
            pinp = dict(P=P, Q=Q, plane_point=p0, plane_normal=npl)
            ok2, c = L.noraise('intersect_plane', lambda: l.intersect_plane(plane), pinp, 'intersect_plane')
            if ok2 and c is not None:
                ip = np.asarray(c.p, float); s2 = max(sc, float(np.max(np.abs(p0))))
                L.close('intersect_plane:on-plane', float(np.dot(npl, ip - p0)), 0.0, TOL, s2 * max(1.0, 1 / abs(np.dot(npl, d / np.linalg.norm(d)))), pinp, what='intersection point is not on the plane')
                L.close('intersect_plane:on-line', dist_to_line(ip, P, d), 0.0, TOL, s2 * max(1.0, 1 / abs(np.dot(npl, d / np.linalg.norm(d)))), pinp, what='intersection point is not on the line')
                ok3, pl = L.noraise('point(lam)', lambda: np.asarray(l.point(c.lam), float).flatten(), pinp, 'point(lam) of the intersection')
                if ok3: L.close('intersect_plane:parameter', pl, ip, TOL, s2 * max(1.0, 1 / abs(np.dot(npl, d / np.linalg.norm(d)))), pinp, what='point(lam) with the returned line parameter is not the returned intersection point', sig='intersect_plane:parameter')
            elif ok2: L.check('intersect_plane', False, pinp, 'no intersection reported for a plane not parallel to the line', sig='intersect_plane:none')
            # the same plane given with a normal that is not of unit length (4-vector and PN forms): same point, and point(lam) is that point
            kn_ = 10.0 ** g.uniform(-1.5, 1.5)
            for pform, mkp in (('PN(p, k n)', lambda: Plane.PN(p0, npl * kn_)), ('Plane([k n, k d])', lambda: Plane(np.r_[npl * kn_, -kn_ * float(np.dot(npl, p0))]))):
                ok2, c = L.noraise('intersect_plane(non-unit normal)', lambda: (lambda r_: (np.asarray(r_.p, float), np.asarray(l.point(r_.lam), float).flatten()))(l.intersect_plane(mkp())), dict(pinp, k=kn_, form=pform), 'intersect_plane with a non-unit normal', sig='intersect_plane(non-unit):raises')
                if ok2:
                    s2n = max(sc, float(np.max(np.abs(p0)))) * max(1.0, 1 / abs(np.dot(npl, d / np.linalg.norm(d))))
                    L.close('intersect_plane(non-unit):on-plane', float(np.dot(npl, c[0] - p0)), 0.0, TOL, s2n, dict(pinp, k=kn_, form=pform), sig='intersect_plane:non-unit-normal')
                    L.close('intersect_plane(non-unit):parameter', c[1], c[0], TOL, s2n, dict(pinp, k=kn_, form=pform), what='point(lam) with the returned parameter is not the intersection point when the plane normal is not of unit length', sig='intersect_plane:non-unit-normal')
            # a plane object with a non-unit normal is the same plane after it has been used: a second intersection (another line) is
            # still on it, it still contains its defining point, and its parameters are what they were
            def reuse_():
                pl_ = Plane.PN(p0, npl * kn_); n0_, d0_ = np.array(pl_.n, float), float(pl_.d)
                l.intersect_plane(pl_); l2_ = Plucker.PQ(P + np.cross(npl, d) * 0.5 + npl, P + d + npl * 0.3)
                r2_ = l2_.intersect_plane(pl_)
                return None if r2_ is None else np.asarray(r2_.p, float).flatten(), bool(pl_.contains(p0, tol=1e-9 * max(1.0, float(np.max(np.abs(p0))), kn_) * max(1.0, kn_))), np.array(pl_.n, float), float(pl_.d), n0_, d0_
            ok2, c = L.noraise('intersect_plane(reused plane)', reuse_, dict(pinp, k=kn_), 'intersect_plane twice with the same Plane object', sig='intersect_plane(reuse):raises')
            if ok2:
                if c[0] is not None: L.close('intersect_plane(reused plane):on-plane', float(np.dot(npl, c[0] - p0)), 0.0, 1e-7, max(sc, float(np.max(np.abs(p0))), float(np.max(np.abs(c[0])))), dict(pinp, k=kn_), what='the intersection with a Plane object that was used before is not on the plane', sig='intersect_plane:reused-plane')
                L.check('intersect_plane(reused plane):contains', c[1], dict(pinp, k=kn_), 'a Plane object no longer contains its defining point after intersect_plane', sig='intersect_plane:reused-plane')
                L.check('intersect_plane(reused plane):unchanged', np.array_equal(c[2], c[4]) and c[3] == c[5], dict(pinp, k=kn_), 'intersect_plane changed the Plane object it was given', sig='intersect_plane:reused-plane')
            # plane membership of the point it was built from
            ok2, c = L.noraise('Plane.contains', lambda: plane.contains(p0, tol=1e-9 * max(1.0, float(np.max(np.abs(p0))))), pinp, 'Plane.PN(p, n).contains(p)')
            if ok2: L.check('Plane.contains', bool(c), pinp, 'a plane built from a point and a normal does not contain that point', sig='Plane.PN:contains')
        # small defining data: a line through two points ~1e-3 apart and a plane through a millimetre-sized triangle, clearly not parallel
        if i % 6 == 1:
            Ps = pt(g) / 100; us = inputs.unit_axis(g); Qs = Ps + us * 10.0 ** g.uniform(-3, -2)
            c0 = pt(g) / 100; e1 = np.cross(us, inputs.unit_axis(g) + 0.3 * us)
            if np.linalg.norm(e1) > 0.2:
                e1 = e1 / np.linalg.norm(e1); e2 = np.cross(us, e1) + 0.5 * e1          # plane spanned by e1, e2: its normal is within ~30 deg of the line direction
                hsz = 10.0 ** g.uniform(-3, -2)
                tri_s = np.stack([c0, c0 + hsz * e1, c0 + hsz * e2], axis=1)
                sinp = dict(P=Ps, Q=Qs, triangle=tri_s)
                ok2, c = L.noraise('intersect_plane(small)', lambda: Plucker.PQ(Ps, Qs).intersect_plane(Plane.P3(tri_s)), sinp, 'intersect_plane with small defining data', sig='intersect_plane(small):raises')
                if ok2 and c is None: L.check('intersect_plane(small)', False, sinp, 'no intersection reported for a plane clearly not parallel to the line (small defining data)', sig='intersect_plane:none')
                elif ok2:
                    ip = np.asarray(c.p, float); nrm_ = np.cross(e1, e2); nrm_ = nrm_ / np.linalg.norm(nrm_)
                    ssc = max(1.0, float(np.max(np.abs(np.r_[Ps, c0]))))
                    L.close('intersect_plane(small):on-plane', float(np.dot(nrm_, ip - c0)), 0.0, 1e-6, ssc, sinp, sig='intersect_plane(small)')
                    L.close('intersect_plane(small):on-line', dist_to_line(ip, Ps, us), 0.0, 1e-6, ssc, sinp, sig='intersect_plane(small)')
        # a plane through a small triangle far from the origin contains its three points (relative to the data magnitude)
        if i % 6 == 2:
            ctr = pt(g); ctr = ctr / max(1e-9, float(np.max(np.abs(ctr)))) * 10.0 ** g.uniform(1, 3)
            tri_f = np.stack([ctr + g.normal(size=3) * 10.0 ** g.uniform(-3, -1) for _ in range(3)], axis=1)
            if np.linalg.norm(np.cross(tri_f[:, 1] - tri_f[:, 0], tri_f[:, 2] - tri_f[:, 0])) > 0.05 * np.linalg.norm(tri_f[:, 1] - tri_f[:, 0]) * np.linalg.norm(tri_f[:, 2] - tri_f[:, 0]):
                ok2, plf = L.noraise('Plane.P3(far)', lambda: Plane.P3(tri_f), dict(points=tri_f), 'Plane.P3 of a small triangle far from the origin', sig='Plane.P3:raises')
                if ok2:
                    nf = np.asarray(plf.n, float); df = float(plf.d); mag_ = float(np.max(np.abs(tri_f)))
                    res_ = [abs(float(np.dot(nf, tri_f[:, k_])) + df) / float(np.linalg.norm(nf)) for k_ in range(3)]
                    L.close('Plane.P3(far):contains', res_, [0.0, 0.0, 0.0], 1e-9, mag_, dict(points=tri_f), what='a plane through three points (small triangle far from the origin) does not contain them', sig='Plane.P3:contains')
        if i % 10 == 0:
            tri = np.stack([pt(g) / 10, pt(g) / 10, pt(g) / 10], axis=1)
            ok2, pl3 = L.noraise('Plane.P3', lambda: Plane.P3(tri), dict(points=tri), 'Plane.P3(three points)', sig='Plane.P3:raises')
            if ok2:
                ok3, c = L.noraise('Plane.P3.contains', lambda: [pl3.contains(tri[:, k], tol=1e-9) for k in range(3)], dict(points=tri), 'P3 contains')
                if ok3: L.check('Plane.P3:contains', all(bool(x) for x in c), dict(points=tri), 'a plane through three points does not contain them')
    return L.result()

if __name__ == '__main__':
    main_entry(_impl)
