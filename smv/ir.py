"""IR of a traced function, its Python evaluators and the Lean emitter."""
import math
from fractions import Fraction
import numpy as np
from .tracer import Sym, Cond, Path, explore, V, vec, mat, Untranslatable, PRIMS1, PRIMS2, CTX

# ------------------------------------------------------------------------------------
# parameters and values
# ------------------------------------------------------------------------------------

class Param:
    """a symbolic parameter of a traced function: scalar, vector(n) or matrix(n,m)"""
    def __init__(self, name, shape=()):
        self.name = name; self.shape = tuple(shape)
    @property
    def size(self):
        n = 1
        for s in self.shape: n *= s
        return n
    def lean_type(self):
        if len(self.shape) == 0: return 'R'
        if len(self.shape) == 1: return f'Vec {self.shape[0]} R'
        return f'Mat {self.shape[0]} {self.shape[1]} R'
    def symbolic(self):
        if len(self.shape) == 0: return V(self.name)
        if len(self.shape) == 1: return vec(self.name, self.shape[0])
        return mat(self.name, *self.shape)
    def varnames(self):
        if len(self.shape) == 0: return [self.name]
        if len(self.shape) == 1: return [f"{self.name} {i}" for i in range(self.shape[0])]
        return [f"{self.name} {i} {j}" for i in range(self.shape[0]) for j in range(self.shape[1])]

def _normalise(val):
    """library return value -> nested structure of Sym / bool / tuple / ('arr', ndarray-of-Sym)"""
    if val is None:
        return None
    if isinstance(val, Cond):
        return bool(val)
    if isinstance(val, (bool, np.bool_)):
        return bool(val)
    if isinstance(val, Sym):
        return val
    if isinstance(val, (int, float, np.integer, np.floating, Fraction)):
        return Sym.c(val)
    if isinstance(val, np.ndarray):
        if val.ndim == 0:
            return _normalise(val.item())
        if val.dtype == bool:
            out = np.empty(val.shape, dtype=object)
            for i, x in np.ndenumerate(val): out[i] = bool(x)
            return out
        out = np.empty(val.shape, dtype=object)
        for i, x in np.ndenumerate(val):
            if isinstance(x, Cond): x = bool(x)
            out[i] = x if isinstance(x, bool) else Sym.c(x)
        return out
    if isinstance(val, (tuple, list)):
        return tuple(_normalise(x) for x in val)
    raise Untranslatable(f'return value of type {type(val).__name__}')

def _has_none(v):
    if v is None: return True
    if isinstance(v, tuple): return any(_has_none(x) for x in v)
    return False

def type_of(v):
    if v is None: return ('none',)
    if isinstance(v, bool): return ('bool',)
    if isinstance(v, Sym): return ('scalar',)
    if isinstance(v, np.ndarray):
        if v.size and isinstance(v.flat[0], bool): return ('boolarr',) + v.shape
        if v.ndim == 1: return ('vec', v.shape[0])
        if v.ndim == 2: return ('mat',) + v.shape
        raise Untranslatable('array of rank > 2')
    if isinstance(v, tuple): return ('tuple',) + tuple(type_of(x) for x in v)
    raise Untranslatable('type_of')

def lean_type(t):
    k = t[0]
    if k == 'bool': return 'Bool'
    if k == 'scalar': return 'R'
    if k == 'vec': return f'Vec {t[1]} R'
    if k == 'mat': return f'Mat {t[1]} {t[2]} R'
    if k == 'tuple': return '(' + ' × '.join(lean_type(x) for x in t[1:]) + ')'
    if k == 'none': return 'Unit'
    raise Untranslatable(f'lean_type {t}')

ERRMAP = {'ValueError': 'ValueError', 'TypeError': 'TypeError', 'IndexError': 'IndexError',
          'AssertionError': 'AssertionError', 'AttributeError': 'AttributeError',
          'NameError': 'NameError', 'UnboundLocalError': 'NameError',
          'ZeroDivisionError': 'ZeroDivisionError'}

class Func:
    """a library callable traced under one configuration"""
    def __init__(self, name, params, call, doc=''):
        self.name = name; self.params = params; self.call = call; self.doc = doc
        self.paths = None; self.otype = None; self.error = None

    def trace(self, maxpaths=150):
        args = [p.symbolic() for p in self.params]
        def run():
            return _normalise(self.call(*args))
        try:
            self.paths = explore(run, maxpaths=maxpaths)
        except Untranslatable as e:
            self.error = str(e); self.paths = None
            return self
        except Exception as e:       # anything else the code under translation does to the executor (e.g. it mutates its symbolic inputs)
            self.error = f'tracer failed: {type(e).__name__}: {str(e)[:120]}'; self.paths = None
            return self
        for p in self.paths:
            # a result with a `None` component (e.g. `(theta, None)`) is modelled as `.none`
            if p.kind == 'ok' and p.value is not None and _has_none(p.value):
                p.value = None
        try:
            types = {type_of(p.value) for p in self.paths if p.kind == 'ok' and p.value is not None}
        except Untranslatable as e:
            self.error = str(e); self.paths = None
            return self
        if len(types) > 1:
            self.error = f'paths return different types: {sorted(types)}'; self.paths = None
            return self
        self.otype = types.pop() if types else ('none',)
        try:
            self.tree = build_tree(self.paths)
        except AssertionError as e:
            # the same decisions led to different continuations: the code is not a function of its arguments on the symbolic
            # inputs (typically: it modified an argument in place, so a re-execution sees different data)
            self.error = f'inconsistent branching (in-place modification of an argument?): {e}'; self.paths = None
        return self

    @property
    def ok(self): return self.paths is not None

    def signature(self):
        """stable description used for drift detection"""
        return (self.name, [(p.name, p.shape) for p in self.params], self.otype, len(self.paths or []))

# ------------------------------------------------------------------------------------
# decision tree
# ------------------------------------------------------------------------------------

def build_tree(paths):
    if len(paths) == 1 and not paths[0].conds:
        p = paths[0]
        return ('leaf', p.kind, p.value)
    c = paths[0].conds[0][0]
    for p in paths:
        assert p.conds and p.conds[0][0].key() == c.key(), 'inconsistent branching'
    T = [Path(p.conds[1:], p.kind, p.value) for p in paths if p.conds[0][1]]
    Fs = [Path(p.conds[1:], p.kind, p.value) for p in paths if not p.conds[0][1]]
    assert T and Fs
    return ('if', c, build_tree(T), build_tree(Fs))

# ------------------------------------------------------------------------------------
# evaluators (float / exact) of the IR
# ------------------------------------------------------------------------------------

class FloatPrims:
    pi = math.pi
    sqrt = staticmethod(math.sqrt); sin = staticmethod(math.sin); cos = staticmethod(math.cos)
    tan = staticmethod(math.tan); acos = staticmethod(math.acos); asin = staticmethod(math.asin)
    atan = staticmethod(math.atan); atan2 = staticmethod(math.atan2)
    floor = staticmethod(lambda x: float(math.floor(x)))
    @staticmethod
    def const(fr): return fr.numerator / fr.denominator

class PseudoPrims:
    """arbitrary *computable* rational functions standing for the primitives; the same
    definitions exist in Lean (`SmVerif.pseudoPrims`), so that `Gen.f` evaluated by Lean at ℚ
    must equal this evaluator literally — a check of IR → Lean text, not of mathematics."""
    pi = Fraction(22, 7)
    @staticmethod
    def sqrt(x): return (x + 1) / 2
    @staticmethod
    def sin(x): return x / (1 + x * x)
    @staticmethod
    def cos(x): return (1 - x * x) / (1 + x * x)
    @staticmethod
    def tan(x): return x / 3
    @staticmethod
    def acos(x): return 1 - x
    @staticmethod
    def asin(x): return x / 2
    @staticmethod
    def atan(x): return x / (2 + x * x)
    @staticmethod
    def atan2(y, x): return (y - x) / (1 + x * x + y * y)
    @staticmethod
    def floor(x): return Fraction(math.floor(x))
    @staticmethod
    def const(fr): return fr

def eval_sym(e, env, P, memo):
    """iterative post-order evaluation (expression DAGs can be deep)"""
    stack = [e]
    while stack:
        n = stack[-1]
        if n.uid in memo:
            stack.pop(); continue
        op = n.op
        if op == 'var':
            memo[n.uid] = env[n.args[0]]; stack.pop(); continue
        if op == 'const':
            memo[n.uid] = P.const(n.args[0]); stack.pop(); continue
        if op == 'pi':
            memo[n.uid] = P.pi; stack.pop(); continue
        kids = [a for a in n.args if isinstance(a, Sym)]
        missing = [k for k in kids if k.uid not in memo]
        if missing:
            stack.extend(missing); continue
        a = [memo[k.uid] for k in kids]
        if op == 'add': r = a[0] + a[1]
        elif op == 'sub': r = a[0] - a[1]
        elif op == 'mul': r = a[0] * a[1]
        elif op == 'div':
            if a[1] == 0:
                # Lean's field division: x / 0 = 0 (both evaluators totalise the same way; real
                # inputs on which this matters are excluded by the theorems' hypotheses)
                r = a[0] * 0
                memo['divzero'] = True
            else:
                r = a[0] / a[1]
        elif op == 'neg': r = -a[0]
        elif op == 'abs': r = abs(a[0])
        elif op == 'pow': r = a[0] ** n.args[1]
        else: r = getattr(P, op)(*a)
        memo[n.uid] = r
        stack.pop()
    return memo[e.uid]

def eval_cond(c, env, P, memo):
    a = eval_sym(c.a, env, P, memo); b = eval_sym(c.b, env, P, memo)
    return dict(lt=a < b, le=a <= b, gt=a > b, ge=a >= b, eq=a == b, ne=a != b)[c.op]

def eval_value(v, env, P, memo):
    if v is None: return None
    if isinstance(v, bool): return v
    if isinstance(v, Sym): return eval_sym(v, env, P, memo)
    if isinstance(v, np.ndarray):
        out = np.empty(v.shape, dtype=object)
        for i, x in np.ndenumerate(v):
            out[i] = x if isinstance(x, bool) else eval_sym(x, env, P, memo)
        return out
    if isinstance(v, tuple): return tuple(eval_value(x, env, P, memo) for x in v)
    raise TypeError(v)

def eval_func(func, env, P, want_margin=False):
    """returns (kind, value, margin) — margin = smallest |a-b| over decided conditions (floats)"""
    memo = {}
    t = func.tree
    margin = float('inf')
    while t[0] == 'if':
        c = t[1]
        d = eval_cond(c, env, P, memo)
        if want_margin:
            a = memo[c.a.uid]; b = memo[c.b.uid]
            margin = min(margin, abs(float(a) - float(b)))
        t = t[2] if d else t[3]
    _, kind, val = t
    if kind == 'exc':
        return ('exc', val, margin)
    out = eval_value(val, env, P, memo)
    if want_margin and memo.get('divzero'):
        margin = 0.0          # the real code divided by zero here (inf/nan/ZeroDivisionError); Lean totalises x/0 = 0
    return ('ok', out, margin)

def make_env(func, values):
    """values: list aligned with func.params (scalars / nested lists / arrays)"""
    env = {}
    for p, v in zip(func.params, values):
        names = p.varnames()
        flat = [v] if len(p.shape) == 0 else list(np.asarray(v, dtype=object).flat)
        assert len(flat) == len(names), (p.name, p.shape, v)
        for n, x in zip(names, flat): env[n] = x
    return env

# ------------------------------------------------------------------------------------
# Lean emitter
# ------------------------------------------------------------------------------------

_OPS = dict(add='+', sub='-', mul='*', div='/')
_REL = dict(lt='<', le='≤', gt='>', ge='≥', eq='=', ne='≠')

def _const(fr):
    n, d = fr.numerator, fr.denominator
    if d == 1:
        return f"({n} : R)" if n >= 0 else f"(-{-n} : R)"
    if n >= 0:
        return f"(({n} : R) / {d})"
    return f"(-(({-n} : R) / {d}))"

def _subexprs(root_items):
    """count references of every node reachable from the given roots"""
    cnt = {}
    seen = set()
    stack = list(root_items)
    for r in root_items:
        cnt[r.uid] = cnt.get(r.uid, 0) + 1
    while stack:
        n = stack.pop()
        if n.uid in seen: continue
        seen.add(n.uid)
        for a in n.args:
            if isinstance(a, Sym):
                cnt[a.uid] = cnt.get(a.uid, 0) + 1
                stack.append(a)
    return cnt

def _roots_of_value(v, acc):
    if isinstance(v, Sym): acc.append(v)
    elif isinstance(v, np.ndarray):
        for x in v.flat:
            if isinstance(x, Sym): acc.append(x)
    elif isinstance(v, tuple):
        for x in v: _roots_of_value(x, acc)

def _roots_of_tree(t, acc):
    if t[0] == 'leaf':
        if t[1] == 'ok': _roots_of_value(t[2], acc)
    else:
        acc.append(t[1].a); acc.append(t[1].b)
        _roots_of_tree(t[2], acc); _roots_of_tree(t[3], acc)

def _balanced(x):
    """True if the outer parentheses of x match each other"""
    depth = 0
    for i, ch in enumerate(x):
        if ch == '(': depth += 1
        elif ch == ')':
            depth -= 1
            if depth == 0 and i != len(x) - 1: return False
    return depth == 0

class Emitter:
    def __init__(self, func):
        self.func = func
        roots = []; _roots_of_tree(func.tree, roots)
        self.cnt = _subexprs(roots)
        self.names = {}; self.n = 0

    def atom(self, e):
        return e.op in ('var', 'const', 'pi')

    def term(self, e, lets):
        """Lean term for e; appends `let` lines for shared / primitive nodes to lets"""
        # iterative to avoid recursion limits: collect post-order of nodes that need handling
        order = []; seen = set(); stack = [(e, False)]
        while stack:
            n, done = stack.pop()
            if n.uid in self.names or (n.uid in seen and not done): continue
            if done:
                order.append(n); continue
            seen.add(n.uid)
            stack.append((n, True))
            for a in n.args:
                if isinstance(a, Sym) and a.uid not in self.names and a.uid not in seen:
                    stack.append((a, False))
        txt = {}
        def ref(a):
            return self.names.get(a.uid) or txt[a.uid]
        for n in order:
            op = n.op
            if op == 'var': r = f"({n.args[0]})" if ' ' in n.args[0] else n.args[0]
            elif op == 'const': r = _const(n.args[0])
            elif op == 'pi': r = 'P.pi'
            elif op in _OPS: r = f"({ref(n.args[0])} {_OPS[op]} {ref(n.args[1])})"
            elif op == 'neg': r = f"(-{ref(n.args[0])})"
            elif op == 'abs': r = f"|{ref(n.args[0])}|"
            elif op == 'pow': r = f"({ref(n.args[0])} ^ {n.args[1]})"
            else: r = f"(P.{op} {' '.join(ref(a) for a in n.args)})"
            shared = (not self.atom(n)) and (self.cnt.get(n.uid, 0) >= 2 or op in PRIMS1 or op in PRIMS2)
            if shared and n is not e or (shared and n is e):
                self.n += 1; nm = f"x{self.n}"
                lets.append(f"let {nm} := {r}")
                self.names[n.uid] = nm
            else:
                txt[n.uid] = r
        return ref(e)

    def value(self, v, lets):
        if isinstance(v, bool): return 'true' if v else 'false'
        if isinstance(v, Sym): return self.term(v, lets)
        if isinstance(v, np.ndarray):
            def mk(items):
                n = len(items)
                if n in (1, 2, 3, 4, 6):
                    return f"(v{n} " + ' '.join(x if x.replace('_', 'a').isalnum() else (x if x.startswith('(') and x.endswith(')') and _balanced(x) else f"({x})") for x in items) + ")"
                return '![' + ', '.join(items) + ']'
            if v.ndim == 1:
                return mk([self.value(x, lets) for x in v])
            return mk([mk([self.value(x, lets) for x in row]) for row in v])
        if isinstance(v, tuple):
            return '(' + ', '.join(self.value(x, lets) for x in v) + ')'
        raise Untranslatable('value')

    def tree(self, t, ind):
        pad = '  ' * ind
        if t[0] == 'leaf':
            _, kind, val = t
            if kind == 'exc':
                return f"{pad}.raised .{ERRMAP.get(val, 'Other')}"
            if val is None:
                return f"{pad}.none"
            lets = []
            body = self.value(val, lets)
            return ''.join(f"{pad}{l}\n" for l in lets) + f"{pad}.ok {body}"
        _, c, tt, ff = t
        lets = []
        a = self.term(c.a, lets); b = self.term(c.b, lets)
        s = ''.join(f"{pad}{l}\n" for l in lets)
        snap = dict(self.names)
        x = self.tree(tt, ind + 1); self.names = dict(snap)
        y = self.tree(ff, ind + 1); self.names = dict(snap)
        return s + f"{pad}if {a} {_REL[c.op]} {b} then\n{x}\n{pad}else\n{y}"

    def emit(self):
        f = self.func
        params = ' '.join(f"({p.name} : {p.lean_type()})" for p in f.params)
        body = self.tree(f.tree, 1)
        doc = f"/-- {f.doc} ({len(f.paths)} path{'s' if len(f.paths) != 1 else ''}) -/\n" if f.doc else ''
        ot = lean_type(f.otype)
        if ' ' in ot and not ot.startswith('('): ot = f"({ot})"
        return f"{doc}def {f.name} (P : Prims R) {params} : Outcome {ot} :=\n{body}\n"

def emit_module(modname, funcs, header_doc=''):
    out = [f"/- GENERATED by smv/gen.py from /repo — do not edit.  {header_doc} -/",
           "import SmVerif.Basic", "",
           "set_option linter.unusedVariables false",
           "set_option maxRecDepth 100000", "",
           "namespace SmVerif.Gen",
           "variable {R : Type} [Field R] [LinearOrder R] [IsStrictOrderedRing R]", ""]
    for f in funcs:
        if f.ok:
            out.append(Emitter(f).emit())
        else:
            out.append(f"-- UNTRANSLATABLE {f.name}: {f.error}\n")
    out.append("end SmVerif.Gen")
    return '\n'.join(out) + '\n'
